SPECIFICATION Spec
CONSTANTS
  MaxB = 3
  PkgBytes <- MCPkgBytes
  PkgRunes <- MCPkgRunes
  SrcBytes <- MCSrcBytes
  SrcRunes <- MCSrcRunes
  Catalogue <- MCCatalogue
INVARIANTS
  CompleteOK
  SplitOK
  BothOK
  FitsOK
  Emit
CHECK_DEADLOCK FALSE
