SPECIFICATION Spec
CONSTANTS
  Full = FALSE
  TokRank <- MCTokRank
INVARIANTS
  Irreflexive
  Asymmetric
  Transitive
  IncompTransitive
  KeyAgrees
  Contract
  Emit
CHECK_DEADLOCK FALSE
