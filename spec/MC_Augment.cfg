SPECIFICATION Spec
CONSTANTS
  MaxP = 3
INVARIANTS
  AttributedOK
  Emit
CHECK_DEADLOCK FALSE
