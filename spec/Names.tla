------------------------------- MODULE Names -------------------------------
(***************************************************************************)
(* nameArguments (stack/stack.go:803-860): pseudo-names for pointer-like   *)
(* argument values.                                                        *)
(*                                                                         *)
(* A dump is a sequence of goroutines; a goroutine a sequence of frames; a *)
(* frame a sequence of slots; a slot is a scalar [k = "v", v = value code]  *)
(* or an aggregate [k = "a", f = slots].  Value codes:                     *)
(*   pointers 1..NP, in ascending order of their concrete value; in the    *)
(*     exhaustive configuration NP = 4: 1 = 524289 (lowest value           *)
(*     classified as a pointer), 2, 3 = heap addresses, 4 = 2^63-2         *)
(*   non-pointers: 1001 = 524288, 1002 = 2^63-1, 1003 = 5                  *)
(*                                                                         *)
(* Two definitions: the declarative labelling written from C15, and the    *)
(* transcription of the two-pass algorithm; MC_Names checks they agree on  *)
(* every dump and that the labelling has the stated properties.            *)
(***************************************************************************)
EXTENDS Naturals, Sequences, FiniteSets, SequencesExt, TLC

CONSTANT NP     \* number of pointer value codes: 1..NP are pointers in ascending order of value

IsPtr(v) == v \in 1..NP

(* all scalar values of a slot list, in walk order (Args.walk) *)
RECURSIVE Flat(_)
Flat(slots) == IF slots = <<>> THEN <<>>
               ELSE LET h == Head(slots) IN
                    (IF h.k = "v" THEN <<h.v>> ELSE Flat(h.f)) \o Flat(Tail(slots))
GorValues(g) == FlattenSeq([f \in 1..Len(g) |-> Flat(g[f])])
AllValues(d) == FlattenSeq([i \in 1..Len(d) |-> GorValues(d[i])])
Count(q, v) == Cardinality({k \in 1..Len(q) : q[k] = v})
InSeq(q, v) == \E k \in 1..Len(q) : q[k] = v

(* ------------------------------------------------------------------ *)
(* declarative labelling (C15)                                          *)
Ptrs(d) == {v \in 1..NP : InSeq(AllValues(d), v)}
InFirst(d, v) == d # <<>> /\ InSeq(GorValues(d[1]), v)
GroupA(d) == {v \in Ptrs(d) : InFirst(d, v) /\ Count(AllValues(d), v) > 1}     \* recur, seen in the first goroutine
GroupB(d) == {v \in Ptrs(d) : ~InFirst(d, v)}                                  \* never in the first goroutine
RankIn(S, v) == Cardinality({x \in S : x <= v})
Label(d, v) == IF v \in GroupA(d) THEN RankIn(GroupA(d), v)
               ELSE IF v \in GroupB(d) THEN Cardinality(GroupA(d)) + RankIn(GroupB(d), v)
               ELSE 0                                                           \* 0 = unnamed

(* ------------------------------------------------------------------ *)
(* the algorithm, as written: one map keyed by value with the argument list
   and the seen-in-first flag; first pass names the keys with more than one
   argument that were seen in the first goroutine, in ascending order; second
   pass names, in ascending order, the keys not seen in the first goroutine *)
RECURSIVE Collect(_,_,_)
Collect(d, i, objs) ==
  IF i > Len(d) THEN objs
  ELSE LET vs == GorValues(d[i])
       IN Collect(d, i + 1,
            [v \in 1..NP |-> [n |-> objs[v].n + Count(vs, v),
                              prim |-> objs[v].prim \/ (i = 1 /\ InSeq(vs, v))]])
Objects(d) == Collect(d, 1, [v \in 1..NP |-> [n |-> 0, prim |-> FALSE]])
RECURSIVE Number(_,_,_)
(* assign next ids to the values of `todo' in ascending order *)
Number(todo, next, names) ==
  IF todo = {} THEN [next |-> next, names |-> names]
  ELSE LET m == CHOOSE x \in todo : \A y \in todo : x <= y IN
       Number(todo \ {m}, next + 1, [names EXCEPT ![m] = next])
Algo(d) ==
  LET o == Objects(d)
      p1 == Number({v \in 1..NP : o[v].n > 1 /\ o[v].prim}, 1, [v \in 1..NP |-> 0])
      p2 == Number({v \in 1..NP : o[v].n > 0 /\ ~o[v].prim}, p1.next, p1.names)
  IN p2.names

(* names of every scalar slot in walk order: 0 = unnamed *)
NamesOf(d) == LET A == AllValues(d) IN [k \in 1..Len(A) |-> IF IsPtr(A[k]) THEN Label(d, A[k]) ELSE 0]
=============================================================================
