SPECIFICATION Spec
CONSTANTS
  B = 4
  Retry = 2
  MaxN = 5
INVARIANTS
  TypeOK
  NoPanic
  LinesRight
  NoReadWhileLine
  ReturnedAll
  Done
  RetryOK
  Emit
CHECK_DEADLOCK FALSE
