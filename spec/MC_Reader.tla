------------------------------ MODULE MC_Reader ------------------------------
(* Exhaustive check of Reader.tla for a small window: every stream of at most
   MaxN cells, every placement of newlines, every delivery schedule (chunk
   sizes, zero-length reads up to the retry bound, EOF / error with or after
   the last data).  Every complete behaviour is emitted for scaled replay on
   the real reader (one model cell = 16384/B real bytes).                    *)
EXTENDS Reader, Json

CONSTANTS MaxN

Init == /\ N \in 0..MaxN /\ NL \in SUBSET (0..(MaxN-1)) /\ \A p \in NL : p < N
        /\ fin \in {"eof","err"} /\ withData \in BOOLEAN
        /\ RInit0
Spec == Init /\ [][RNext]_rvars

(* C03, design level: the reader terminates on every finite stream under every schedule - zero-length
   reads are bounded by Retry, every other read hands out at least one cell or ends the stream *)
FairSpec == Init /\ [][RNext]_rvars /\ WF_rvars(RNext)
Terminates == <>(pc = "end")
Emit == pc = "end" =>
  PrintT("CASE " \o ToJson([B |-> B, Retry |-> Retry, N |-> N, NL |-> NL, fin |-> fin, withData |-> withData,
                            reads |-> reads, lines |-> lines]))
=============================================================================
