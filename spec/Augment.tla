------------------------------ MODULE Augment ------------------------------
(***************************************************************************)
(* Source-based argument augmentation (stack/source.go:241-377): how the   *)
(* words of a traceback line are attributed to the parameters of the       *)
(* function found in the sources.                                          *)
(*                                                                         *)
(* The toolchain prints one top-level argument per parameter (receiver of  *)
(* a pointer method first); a parameter of a multi-word kind is printed as *)
(* an aggregate of its words: string {ptr, len}, slice {ptr, len, cap},    *)
(* interface {type, data}; every other supported kind is one word.         *)
(* augmentCall flattens all words and walks the parameter types with a     *)
(* cursor.  Words are symbolic here - word w of parameter p - so that the  *)
(* property is about ATTRIBUTION: each rendered parameter is built from    *)
(* its own words, whatever mix of 1/2/3-word kinds precedes it.  Numeric   *)
(* formatting (masking, sign extension, float bit patterns) is checked by  *)
(* the replay on concrete values.                                          *)
(***************************************************************************)
EXTENDS Naturals, Sequences, FiniteSets, SequencesExt, TLC

OneWord == {"bool", "int", "int8", "int16", "int32", "int64", "uint", "uint8", "uint16", "uint32", "uint64",
            "uintptr", "byte", "rune", "float32", "float64", "ptr", "map", "chan", "chanrecv", "chansend", "func"}
            \* chanrecv / chansend: directional channel types (<-chan T, chan<- T): one word like chan
Kinds == OneWord \cup {"string", "slice", "iface"}
NWords(k) == CASE k = "string" -> 2 [] k = "slice" -> 3 [] k = "iface" -> 2 [] OTHER -> 1

(* what the toolchain prints: per parameter its words *)
Printed(params) == [p \in 1..Len(params) |-> [w \in 1..NWords(params[p]) |-> <<p, w>>]]
Flat(params) == FlattenSeq(Printed(params))

(* augmentCall: how many words the branch taken for a type name pops *)
Pops(k) == CASE k \in OneWord -> 1            \* sized ints, bool, floats, "*T", and (fix 6d15882) map/chan/func/byte/rune/uintptr
             [] k = "string" -> 2
             [] k = "slice" -> 3
             [] k = "iface" -> 2              \* top-level aggregate: one popName per field
RECURSIVE Walk(_,_,_)
(* rendered parameters: the words each one was built from *)
Walk(params, i, words) ==
  IF words = <<>> \/ i > Len(params) THEN <<>>
  ELSE LET n == Pops(params[i])
           take == IF n <= Len(words) THEN n ELSE Len(words) IN
       <<SubSeq(words, 1, take)>> \o Walk(params, i + 1, SubSeq(words, take + 1, Len(words)))
Rendered(params) == Walk(params, 1, Flat(params))

(* C19: every rendered parameter is built from exactly its own words *)
Attributed(params) ==
  /\ Len(Rendered(params)) = Len(params)
  /\ \A p \in 1..Len(params) : Rendered(params)[p] = Printed(params)[p]
---------------------------------------------------------------------------
(***************************************************************************)
(* Which function's parameter types are applied (source.go getFuncAST).    *)
(*                                                                         *)
(* A source file is a sequence of top-level function declarations, each    *)
(* occupying the lines first..last (the `func' keyword .. the closing      *)
(* brace), in increasing order and without sharing lines; `stmts' is the   *)
(* set of its lines that carry a statement (possibly the declaration line  *)
(* itself - a one-line function - or the line of the closing brace).       *)
(* The runtime reports a frame at a line of its function: a statement      *)
(* line, or the closing brace while deferred calls run.                    *)
(*                                                                         *)
(* The code walks the syntax tree depth-first - per declaration: the       *)
(* declaration node, its signature (same line), then its statements - up   *)
(* to the first node that starts at or after the frame's line, and takes   *)
(* the last declaration seen before it; a declaration that starts on the   *)
(* frame's line itself is the frame's function (fix 12).                   *)
(***************************************************************************)
MinS(S) == CHOOSE x \in S : \A y \in S : x <= y
MaxS(S) == CHOOSE x \in S : \A y \in S : x >= y
WellFormed(lay) ==
  /\ \A k \in 1..Len(lay) : lay[k].first <= lay[k].last /\ lay[k].stmts \subseteq lay[k].first..lay[k].last
  /\ \A k \in 1..(Len(lay) - 1) : lay[k].last < lay[k+1].first
NodesOf(lay, k) ==
  <<[kind |-> "decl", line |-> lay[k].first, d |-> k], [kind |-> "sig", line |-> lay[k].first, d |-> k]>>
  \o [i \in 1..Cardinality(lay[k].stmts) |->
        [kind |-> "stmt", line |-> SetToSortSeq(lay[k].stmts, LAMBDA a, b : a < b)[i], d |-> k]]
Nodes(lay) == FlattenSeq([k \in 1..Len(lay) |-> NodesOf(lay, k)])

(* 0 = no function found: the arguments stay unprocessed *)
CodeLookup(lay, l, declOnLine) ==
  LET ns  == Nodes(lay)
      idx == {i \in 1..Len(ns) : ns[i].line >= l} IN
  IF idx = {} THEN 0
  ELSE LET i == MinS(idx) IN
       IF declOnLine /\ ns[i].kind = "decl" /\ ns[i].line = l THEN ns[i].d
       ELSE LET before == {j \in 1..(i-1) : ns[j].kind = "decl"} IN
            IF before = {} THEN 0 ELSE ns[MaxS(before)].d
Lookup(lay, l) == CodeLookup(lay, l, TRUE)
(* the rule before fix 12: a frame on the declaration line of its function (a one-line
   function, or a first statement on the line of `func') got the PREVIOUS function *)
LookupBeforeFix12(lay, l) == CodeLookup(lay, l, FALSE)

Enclosing(lay, l) ==
  LET S == {k \in 1..Len(lay) : lay[k].first <= l /\ l <= lay[k].last} IN
  IF S = {} THEN 0 ELSE CHOOSE k \in S : TRUE

(* C19: the parameter types applied to a frame are those of the function the frame's line
   lies in, or none at all; none only when nothing follows the line in the file *)
LookupOK(lay, l) ==
  Enclosing(lay, l) # 0 =>
     /\ Lookup(lay, l) \in {0, Enclosing(lay, l)}
     /\ Lookup(lay, l) = 0 => \A k \in 1..Len(lay) : \A i \in 1..Len(NodesOf(lay, k)) : NodesOf(lay, k)[i].line < l
=============================================================================
