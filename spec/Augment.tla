------------------------------ MODULE Augment ------------------------------
(***************************************************************************)
(* Source-based argument augmentation (stack/source.go:241-377): how the   *)
(* words of a traceback line are attributed to the parameters of the       *)
(* function found in the sources.                                          *)
(*                                                                         *)
(* The toolchain prints one top-level argument per parameter (receiver of  *)
(* a pointer method first); a parameter of a multi-word kind is printed as *)
(* an aggregate of its words: string {ptr, len}, slice {ptr, len, cap},    *)
(* interface {type, data}; every other supported kind is one word.         *)
(* augmentCall flattens all words and walks the parameter types with a     *)
(* cursor.  Words are symbolic here - word w of parameter p - so that the  *)
(* property is about ATTRIBUTION: each rendered parameter is built from    *)
(* its own words, whatever mix of 1/2/3-word kinds precedes it.  Numeric   *)
(* formatting (masking, sign extension, float bit patterns) is checked by  *)
(* the replay on concrete values.                                          *)
(***************************************************************************)
EXTENDS Naturals, Sequences, FiniteSets, SequencesExt, TLC

OneWord == {"bool", "int", "int8", "int16", "int32", "int64", "uint", "uint8", "uint16", "uint32", "uint64",
            "uintptr", "byte", "rune", "float32", "float64", "ptr", "map", "chan", "func"}
Kinds == OneWord \cup {"string", "slice", "iface"}
NWords(k) == CASE k = "string" -> 2 [] k = "slice" -> 3 [] k = "iface" -> 2 [] OTHER -> 1

(* what the toolchain prints: per parameter its words *)
Printed(params) == [p \in 1..Len(params) |-> [w \in 1..NWords(params[p]) |-> <<p, w>>]]
Flat(params) == FlattenSeq(Printed(params))

(* augmentCall: how many words the branch taken for a type name pops *)
Pops(k) == CASE k \in OneWord -> 1            \* sized ints, bool, floats, "*T", and (fix 6d15882) map/chan/func/byte/rune/uintptr
             [] k = "string" -> 2
             [] k = "slice" -> 3
             [] k = "iface" -> 2              \* top-level aggregate: one popName per field
RECURSIVE Walk(_,_,_)
(* rendered parameters: the words each one was built from *)
Walk(params, i, words) ==
  IF words = <<>> \/ i > Len(params) THEN <<>>
  ELSE LET n == Pops(params[i])
           take == IF n <= Len(words) THEN n ELSE Len(words) IN
       <<SubSeq(words, 1, take)>> \o Walk(params, i + 1, SubSeq(words, take + 1, Len(words)))
Rendered(params) == Walk(params, 1, Flat(params))

(* C19: every rendered parameter is built from exactly its own words *)
Attributed(params) ==
  /\ Len(Rendered(params)) = Len(params)
  /\ \A p \in 1..Len(params) : Rendered(params)[p] = Printed(params)[p]
=============================================================================
