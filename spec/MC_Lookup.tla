------------------------------ MODULE MC_Lookup ------------------------------
(* Every source layout of at most MaxDecl function declarations over MaxLine lines, every
   placement of statements, every frame line: the function whose types are applied. *)
EXTENDS Augment, Json
CONSTANTS MaxLine, MaxDecl
DeclSet == {d \in [first : 1..MaxLine, last : 1..MaxLine, stmts : SUBSET (1..MaxLine)] :
              d.first <= d.last /\ d.stmts \subseteq d.first..d.last}
Layouts == UNION {{lay \in [1..n -> DeclSet] : WellFormed(lay)} : n \in 1..MaxDecl}
VARIABLES lay, l
vars == <<lay, l>>
Init == lay \in Layouts /\ l \in 1..MaxLine
Next == UNCHANGED vars
Spec == Init /\ [][Next]_vars
LookupRight == LookupOK(lay, l)
(* not checked: documents the defect fix 12 repaired - TLC refutes it with a one-line function *)
LookupRightBeforeFix12 == Enclosing(lay, l) # 0 => LookupBeforeFix12(lay, l) \in {0, Enclosing(lay, l)}
Emit == PrintT("CASE " \o ToJson([lay |-> [k \in 1..Len(lay) |-> [first |-> lay[k].first, last |-> lay[k].last,
                                                                   stmts |-> SetToSortSeq(lay[k].stmts, LAMBDA a, b : a < b)]],
                                   l |-> l, encl |-> Enclosing(lay, l), want |-> Lookup(lay, l)]))
=============================================================================
