SPECIFICATION Spec
CONSTANTS
  MaxG = 2
  Univ = "one"
  TokRank <- MCTokRank
INVARIANTS
  Partition
  Classes
  KeyKept
  AtMostOneSimilar
  Generalises
  Sorted
  FirstFirst
  Deterministic
  Emit
CHECK_DEADLOCK FALSE
