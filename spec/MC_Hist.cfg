SPECIFICATION HSpec
CONSTANTS
  MaxG = 1
  Univ = "merge"
  TokRank <- MCTokRank
  MaxOps = 3
  MaxWorkers = 2
  MaxWOps = 2
INVARIANTS
  HEmit
PROPERTY
  Immutable
CHECK_DEADLOCK FALSE
