-------------------------------- MODULE Html --------------------------------
(***************************************************************************)
(* HTML rendering (stack/html.go, stack/goroutines.tpl): where text taken  *)
(* from the dump ends up, and what stands between it and the browser.      *)
(*                                                                         *)
(* A frame is classified by the branch the URL builders take for it:       *)
(*   loc      location class                                               *)
(*   rel      shape of the relative source path                            *)
(*   local / remote : whether a local / remote source path is present      *)
(*   exported, main : flags of the function                                *)
(* For every branch the module gives, per link of the frame row, the       *)
(* sequence of PIECES the href is assembled from.  A piece is a literal    *)
(* (scheme and host are always literals) or a tainted field with the       *)
(* sanitiser applied on that path:                                         *)
(*   "path"   net/url EscapedPath            (escape())                     *)
(*   "query"  url.QueryEscape                (splitTag, symbol, version)    *)
(*   "none"   nothing by panicparse; html/template still normalises the    *)
(*            URL and escapes the attribute value for a template.URL        *)
(* Text slots go through html/template's contextual auto-escaper; the      *)
(* class attribute receives only a literal and the escaped name of the     *)
(* location constant.                                                      *)
(***************************************************************************)
EXTENDS Naturals, Sequences, FiniteSets, TLC

Locs == {"Unknown", "GoMod", "GOPATH", "GoPkg", "Stdlib"}
RelShapes == {"empty", "github3", "github3ver", "github3verodd", "github3pseudo", "github3atfile", "githubshort", "golangx", "golangxver", "golangother",
              "otherhost", "otherhostver", "otherhostat", "otherhostatdir", "vendorgithub", "nodir"}
Lit(s) == [kind |-> "lit", text |-> s, san |-> "lit"]
Taint(f, san) == [kind |-> "taint", text |-> f, san |-> san]

(* getSrcBranchURL (html.go:134-201): pieces of the source link, and the branch tag *)
SrcPieces(b) ==
  IF b.loc = "Stdlib"
  THEN <<Lit("https://github.com/golang/go/blob/"), Taint("goversion", "query"), Lit("/src/"), Taint("RelSrcPath", "path"), Lit("#L"), Lit("line")>>
  ELSE LET r == IF b.rel = "vendorgithub" THEN "github3" ELSE b.rel
           fileurl == IF b.local THEN <<Lit("file:///"), Taint("LocalSrcPath", "path")>>
                      ELSE IF b.remote THEN <<Lit("file:///"), Taint("RemoteSrcPath", "path")>>
                      ELSE <<>> IN
       CASE r \in {"github3", "github3ver", "github3verodd", "github3pseudo", "github3atfile"} ->
              <<Lit("https://github.com/"), Taint("rel.owner", "path"), Lit("/"), Taint("rel.repo", "none"), Lit("/blob/"),
                \* "github3atfile": no version on the repository element, an '@' in the file name - part of the path, not a version
                (IF r \in {"github3", "github3atfile"} THEN Lit("master") ELSE Taint("rel.version", "query")), Lit("/"), Taint("rel.rest", "path"), Lit("#L"), Lit("line")>>
         [] r \in {"golangx", "golangxver"} ->
              <<Lit("https://github.com/golang/"), Taint("rel.repo", "none"), Lit("/blob/"),
                (IF r = "golangx" THEN Lit("master") ELSE Taint("rel.version", "query")), Lit("/"), Taint("rel.rest", "path"), Lit("#L"), Lit("line")>>
         [] OTHER -> fileurl          \* empty, too short, other hosts: only the version tag is extracted

(* the version tag, as pkgURL sees it: "" / "master" / a version *)
Branch(b) ==
  IF b.loc = "Stdlib" THEN "version"
  ELSE LET r == IF b.rel = "vendorgithub" THEN "github3" ELSE b.rel IN
       CASE r \in {"github3", "github3atfile", "golangx"} -> "master"
         [] r \in {"github3ver", "github3verodd", "github3pseudo", "golangxver"} -> "version"
         \* other hosts: the tag is only handed back together with a file:/// link
         [] r = "otherhostver" -> IF b.local \/ b.remote THEN "version" ELSE ""
         \* "dir@/...": the text between '@' and the next '/' is empty, so there is no version ("otherhostatdir" falls under OTHER)
         [] OTHER -> ""

(* pkgURL (html.go:84-114) *)
PkgPieces(b) ==
  IF ~b.hasimport THEN <<>>
  ELSE LET host == IF b.loc = "Stdlib" THEN "https://golang.org/pkg/"
                   ELSE IF Branch(b) \in {"master", ""} THEN "https://godoc.org/" ELSE "https://pkg.go.dev/"
           base == <<Lit(host), Taint("ImportPath", "path")>> IN
       IF b.exported THEN base \o <<Lit("#"), Taint("Func.Name", "query")>> ELSE base

(* Safety of a link: it is empty, or it starts with a literal that fixes the
   scheme (and host for https), and no tainted piece precedes it.            *)
SafeLink(p) == p = <<>> \/ (p[1].kind = "lit" /\ p[1].text \in
   {"https://github.com/golang/go/blob/", "https://github.com/", "https://github.com/golang/", "file:///",
    "https://golang.org/pkg/", "https://godoc.org/", "https://pkg.go.dev/"})
(* every tainted piece has a sanitiser: "none" relies on html/template's
   attribute escaping and URL normalisation, which is listed as an assumption *)
Sanitised(p) == \A i \in 1..Len(p) : p[i].kind = "taint" => p[i].san \in {"path", "query", "none"}
UsesNone(p) == \E i \in 1..Len(p) : p[i].kind = "taint" /\ p[i].san = "none"
=============================================================================
