----------------------------- MODULE Trace_Live -----------------------------
(***************************************************************************)
(* The producer model against the live producer: dumps that the Go runtime *)
(* of the harness process really printed (runtime.Stack(all) under the     *)
(* churn workload of C20: goroutines parked on channels, selects, mutexes, *)
(* condition variables, sleeps, network I/O, locked to threads, 130 frames *)
(* deep, being created and exiting) are lexed by the harness into the line *)
(* classes of Scanner.tla and recorded, one record per dump:               *)
(*   lines    the class of every line: [lead, body, id]                    *)
(*   ids      the goroutine ids the real ScanSnapshot returned             *)
(*   ncalls   the number of frames it returned per goroutine               *)
(* TLC scans each recorded dump with the SPECIFICATION's scanner           *)
(* (Pipeline.RunAll) and checks that it accepts everything the runtime     *)
(* printed - every line consumed into one snapshot, no error but the end   *)
(* of the stream - and that the real parser returned the same goroutines   *)
(* with the same frame counts as the specification.                        *)
(***************************************************************************)
EXTENDS Pipeline, Json

Trace == ndJsonDeserialize("live_trace.ndjson")
VARIABLES l
TInit == l = 1 /\ ps = PS0
TNext == l <= Len(Trace) /\ l' = l + 1 /\ UNCHANGED ps
TSpec == TInit /\ [][TNext]_<<l, ps>>

Rec == Trace[l]
LineOf(x) == [lead |-> x.lead, body |-> x.body, eol |-> "lf", p |-> [id |-> x.id, state |-> "", tok |-> ""]]
RecOK == l <= Len(Trace) =>
  LET L  == [i \in 1..Len(Rec.lines) |-> LineOf(Rec.lines[i])]
      FC == FinalCallsOf(RunAll(L))
      c  == FC[1]
  IN /\ Len(FC) = 1                                   \* one call takes the whole dump
     /\ c.err = "eof" /\ c.fwd = <<>> /\ c.tail = <<>>
     /\ c.cons = [i \in 1..Len(L) |-> i]              \* every line the runtime printed is part of the dump
     /\ [i \in 1..Len(c.snap) |-> c.snap[i].id] = Rec.ids
     /\ [i \in 1..Len(c.snap) |-> Len(c.snap[i].calls)] = Rec.ncalls
     /\ \A i \in 1..Len(c.snap) : \A j \in 1..Len(c.snap[i].calls) :
          c.snap[i].calls[j].lead = <<>> /\ c.snap[i].calls[j].flead = <<>>
Accepted == TLCGet("stats").diameter - 1 = Len(Trace)
=============================================================================
