----------------------------- MODULE Aggregate -----------------------------
(***************************************************************************)
(* stack/bucket.go (Aggregate) and the relations of stack/stack.go it is   *)
(* built from: similar / equal / merge / less on abstract signatures.      *)
(*                                                                         *)
(* A signature is                                                          *)
(*   [state, created, locked, smin, smax, elided, fr]                      *)
(* with fr a sequence of frames [fn, file, line, loc, main, args] and args *)
(* a record [v : sequence of arguments, el : trailing "..."].  An argument *)
(* is a scalar [k="v", v, ptr, name, big, inacc] or an aggregate           *)
(* [k="a", f : args].                                                      *)
(*                                                                         *)
(* Two independent definitions of "same bucket" are given: the             *)
(* transcription of the code's similar() and a canonical Key written from  *)
(* the property text; likewise merge() (incremental, pairwise) and         *)
(* Generalise (declarative, over all members).                             *)
(*                                                                         *)
(* The greedy loop is written with Go's map iteration as explicit          *)
(* nondeterminism (\E over the matching keys, any order of collection), so *)
(* that TLC visits every iteration order.                                  *)
(***************************************************************************)
EXTENDS Naturals, Sequences, FiniteSets, SequencesExt, FiniteSetsExt, TLC

(* TLC cannot compare strings: the byte order of the tokens that the ordering
   looks at (function, dir/file, state) is given by a rank function.          *)
CONSTANT TokRank
TokLess(a, b) == TokRank[a] < TokRank[b]

Levels == <<"ExactFlags", "ExactLines", "AnyPointer", "AnyValue">>
LevelSet == {Levels[i] : i \in 1..4}

Sc(v, ptr) == [k |-> "v", v |-> v, ptr |-> ptr, name |-> "", big |-> FALSE, inacc |-> FALSE, f |-> <<>>, el |-> FALSE]
TooBig     == [Sc(0, FALSE) EXCEPT !.big = TRUE]
Inacc(a)   == [a EXCEPT !.inacc = TRUE]
Named(a, nm) == [a EXCEPT !.name = nm]
Ag(fs, el) == [k |-> "a", v |-> 0, ptr |-> FALSE, name |-> "", big |-> FALSE, inacc |-> FALSE, f |-> fs, el |-> el]
Args(vs, el) == [v |-> vs, el |-> el]

---------------------------------------------------------------------------
(* transcription of Arg.similar / Args.similar (stack.go:184-274) *)
RECURSIVE ArgSimilar(_,_,_), ArgsSimilar(_,_,_,_,_)
ArgSimilar(a, b, lvl) ==
  IF a.k # b.k THEN FALSE
  ELSE IF a.k = "a" THEN ArgsSimilar(a.f, a.el, b.f, b.el, lvl)
  ELSE CASE lvl \in {"ExactFlags","ExactLines"} -> a.name = b.name /\ a.big = b.big /\ a.ptr = b.ptr /\ a.v = b.v
         [] lvl = "AnyValue"   -> TRUE
         [] lvl = "AnyPointer" -> a.big = b.big /\ a.ptr = b.ptr /\ (a.ptr \/ a.v = b.v)
ArgsSimilar(x, xel, y, yel, lvl) ==
  xel = yel /\ Len(x) = Len(y) /\ \A i \in 1..Len(x): ArgSimilar(x[i], y[i], lvl)
ArgEqual(a, b) == ArgSimilar(a, b, "ExactFlags")

(* transcription of Args.merge (stack.go:277-296) *)
RECURSIVE ArgMerge(_,_)
ArgMerge(a, b) ==
  IF a.k = "a" THEN Ag([i \in 1..Len(a.f) |-> ArgMerge(a.f[i], b.f[i])], a.el)
  ELSE IF ~ArgEqual(a, b) THEN [Sc(a.v, a.ptr) EXCEPT !.name = "*"]
  ELSE a
ArgsMerge(x, y) == [v |-> [i \in 1..Len(x.v) |-> ArgMerge(x.v[i], y.v[i])], el |-> x.el]

FrSimilar(f, g, lvl) == /\ f.line = g.line /\ f.fn = g.fn /\ f.file = g.file
                        /\ ArgsSimilar(f.args.v, f.args.el, g.args.v, g.args.el, lvl)
StackSimilar(x, xel, y, yel, lvl) ==
  Len(x) = Len(y) /\ xel = yel /\ \A i \in 1..Len(x): FrSimilar(x[i], y[i], lvl)

(* Signature.similar / equal / merge (stack.go:693-730) *)
Similar(a, b, lvl) ==
  /\ a.state = b.state
  /\ StackSimilar(a.created, FALSE, b.created, FALSE, lvl)
  /\ (lvl = "ExactFlags" => a.locked = b.locked)
  /\ StackSimilar(a.fr, a.elided, b.fr, b.elided, lvl)
Equal(a, b) ==
  /\ a.state = b.state /\ StackSimilar(a.created, FALSE, b.created, FALSE, "ExactFlags")
  /\ a.locked = b.locked /\ a.smin = b.smin /\ a.smax = b.smax
  /\ StackSimilar(a.fr, a.elided, b.fr, b.elided, "ExactFlags")
Merge(a, b) ==
  [a EXCEPT !.smin = IF b.smin < a.smin THEN b.smin ELSE a.smin,
            !.smax = IF b.smax > a.smax THEN b.smax ELSE a.smax,
            !.locked = a.locked \/ b.locked,
            !.fr = [i \in 1..Len(a.fr) |-> [a.fr[i] EXCEPT !.args = ArgsMerge(a.fr[i].args, b.fr[i].args)]]]

---------------------------------------------------------------------------
(* Canonical key, written from the statement of C05: same state, same creator,
   same frames (function, file, line, argument shape) with arguments compared
   exactly / up to pointer values / up to all values; the lock flag only at
   ExactFlags; sleep never.                                                  *)
RECURSIVE ArgKey(_,_)
ArgKey(a, lvl) ==
  IF a.k = "a" THEN <<"a", [i \in 1..Len(a.f) |-> ArgKey(a.f[i], lvl)], a.el>>
  ELSE CASE lvl \in {"ExactFlags","ExactLines"} -> <<"v", a.big, a.ptr, a.v, a.name>>
         [] lvl = "AnyPointer" -> <<"v", a.big, a.ptr, IF a.ptr THEN 0 ELSE a.v, "">>
         [] lvl = "AnyValue"   -> <<"v", FALSE, FALSE, 0, "">>
FrKey(f, lvl) == <<f.fn, f.file, f.line, [j \in 1..Len(f.args.v) |-> ArgKey(f.args.v[j], lvl)], f.args.el>>
Key(s, lvl) == <<s.state, [i \in 1..Len(s.created) |-> FrKey(s.created[i], lvl)],
                 IF lvl = "ExactFlags" THEN s.locked ELSE FALSE, s.elided,
                 [i \in 1..Len(s.fr) |-> FrKey(s.fr[i], lvl)]>>

(* Declarative generalisation of a non-empty sequence of member signatures
   (C12): everything structural is the members' common value; an argument is
   shown as the first member's if every member's is exactly equal to it, as
   the wildcard otherwise; sleep range is min..max, locked iff some member. *)
RECURSIVE ArgGen(_,_)
ArgGen(as, dummy) ==   \* as: the same argument position in every member
  LET a == as[1] IN
  IF a.k = "a" THEN Ag([i \in 1..Len(a.f) |-> ArgGen([m \in 1..Len(as) |-> as[m].f[i]], dummy)], a.el)
  ELSE IF \A m \in 1..Len(as) : ArgEqual(a, as[m]) THEN a
  ELSE [Sc(a.v, a.ptr) EXCEPT !.name = "*"]
MinOf(S) == CHOOSE x \in S : \A y \in S : x <= y
MaxOf(S) == CHOOSE x \in S : \A y \in S : x >= y
Generalise(ms) ==
  LET a == ms[1]
      M == 1..Len(ms) IN
  IF Len(ms) = 1 \/ \A m \in M : Equal(a, ms[m]) THEN a
  ELSE
  [a EXCEPT !.smin = MinOf({ms[m].smin : m \in M}),
            !.smax = MaxOf({ms[m].smax : m \in M}),
            !.locked = \E m \in M : ms[m].locked,
            !.fr = [i \in 1..Len(a.fr) |->
                      [a.fr[i] EXCEPT !.args =
                         [v |-> [j \in 1..Len(a.fr[i].args.v) |-> ArgGen([m \in M |-> ms[m].fr[i].args.v[j]], 0)],
                          el |-> a.fr[i].args.el]]]]

---------------------------------------------------------------------------
(* Stack.less / Signature.less (stack.go:564-756) and the bucket comparator
   (bucket.go:80-97), transcribed.                                          *)
Locs == <<"Unknown", "GoMod", "GOPATH", "GoPkg", "Stdlib">>     \* Location values 0..4
CountLoc(fr, loc) == Cardinality({i \in 1..Len(fr) : fr[i].loc = loc})
CountMain(fr) == Cardinality({i \in 1..Len(fr) : fr[i].main})

RECURSIVE LocLess(_,_,_)
(* compares the per-location counters in the code's order: 1..4, then 0 *)
LocLess(l, r, i) ==
  IF i > 5 THEN "eq"
  ELSE LET loc == IF i = 5 THEN Locs[1] ELSE Locs[i + 1]
           a == CountLoc(l, loc)
           b == CountLoc(r, loc) IN
       IF a > b THEN "lt" ELSE IF a < b THEN "gt" ELSE LocLess(l, r, i + 1)

RECURSIVE FramesLess(_,_,_)
FramesLess(l, r, x) ==
  IF x > Len(l) THEN FALSE
  ELSE IF l[x].fn # r[x].fn THEN TokLess(l[x].fn, r[x].fn)
  ELSE IF l[x].dirsrc # r[x].dirsrc THEN TokLess(l[x].dirsrc, r[x].dirsrc)
  ELSE IF l[x].line # r[x].line THEN l[x].line < r[x].line
  ELSE FramesLess(l, r, x + 1)

StackLess(l, r) ==
  IF CountMain(l) # CountMain(r) THEN CountMain(l) > CountMain(r)
  ELSE LET c == LocLess(l, r, 1) IN
       IF c # "eq" THEN c = "lt"
       ELSE FramesLess(l, r, 1)     \* equal counters imply equal lengths
SigLess(a, b) ==
  IF StackLess(a.fr, b.fr) THEN TRUE
  ELSE IF StackLess(b.fr, a.fr) THEN FALSE
  ELSE IF a.locked # b.locked THEN a.locked
  ELSE TokLess(a.state, b.state)

(* bucket = [sig, ids, first] *)
Before(l, r) ==
  IF l.first \/ r.first THEN l.first
  ELSE IF SigLess(l.sig, r.sig) THEN TRUE
  ELSE IF SigLess(r.sig, l.sig) THEN FALSE
  ELSE IF Len(l.ids) # Len(r.ids) THEN Len(r.ids) > Len(l.ids)
  ELSE l.ids[1] < r.ids[1]

---------------------------------------------------------------------------
(* The aggregation as a FUNCTION of its input (C06): group the positions by
   canonical key in order of first appearance, generalise each group, order
   the groups with the comparator (a strict total order on buckets of one
   snapshot, because ties end on the smallest id).  MC_Agg checks that every
   execution of the greedy loop, for every map iteration order, ends in
   exactly this value.                                                      *)
RECURSIVE GroupsOf(_,_,_,_)
GroupsOf(sigs, lvl, p, acc) ==
  IF p > Len(sigs) THEN acc
  ELSE LET k == Key(sigs[p], lvl)
           hit == {g \in 1..Len(acc) : Key(sigs[acc[g][1]], lvl) = k} IN
       IF hit = {} THEN GroupsOf(sigs, lvl, p + 1, Append(acc, <<p>>))
       ELSE LET g == CHOOSE x \in hit : TRUE IN
            GroupsOf(sigs, lvl, p + 1, [acc EXCEPT ![g] = Append(@, p)])
RECURSIVE SelectSort(_)
SelectSort(B) == IF B = {} THEN <<>>
                 ELSE LET m == CHOOSE x \in B : \A y \in B \ {x} : Before(x, y) IN <<m>> \o SelectSort(B \ {m})
(* ids[p] = goroutine id of position p *)
Canon(sigs, ids, lvl) ==
  LET G == GroupsOf(sigs, lvl, 1, <<>>)
      bucket(g) == [sig |-> Generalise([x \in 1..Len(G[g]) |-> sigs[G[g][x]]]),
                    ids |-> SortSeq([x \in 1..Len(G[g]) |-> ids[G[g][x]]], <),
                    first |-> G[g][1] = 1]
  IN SelectSort({bucket(g) : g \in 1..Len(G)})
=============================================================================
