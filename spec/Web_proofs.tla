----------------------------- MODULE Web_proofs -----------------------------
(***************************************************************************)
(* The capture loop of Web.tla for every buffer size, maxmem and dump size *)
(* (TLC checks it for Start = 2 units, maxmem and dumps up to a few        *)
(* units): the buffer never exceeds max(maxmem, initial size); a capture   *)
(* reported complete holds the whole dump as it was at the last attempt; a *)
(* capture is reported truncated only when that dump did not fit into the  *)
(* largest buffer allowed.                                                 *)
(***************************************************************************)
EXTENDS Web, TLAPS

ASSUME WParams == Start \in Nat /\ Start >= 1 /\ MaxM \in Nat /\ MaxD \in Nat

WInv ==
  /\ m \in Nat /\ buf \in Nat /\ n \in Nat /\ dump \in Nat /\ iter \in Nat
  /\ state \in {"loop", "complete", "truncated"}
  /\ Start <= buf /\ buf <= Clamp(m)
  /\ state = "complete" => n = dump /\ dump < buf
  /\ state = "truncated" => buf = Clamp(m) /\ dump >= buf /\ n = buf

THEOREM WInit == CInit => WInv
  BY WParams DEF CInit, WInv, Clamp

THEOREM WStep == WInv /\ [CNext]_cvars => WInv'
<1> SUFFICES ASSUME WInv, [CNext]_cvars PROVE WInv' OBVIOUS
<1> USE WParams
<1>1 CASE Attempt
  <2>1 PICK d \in 1..MaxD :
         /\ state = "loop"
         /\ dump' = d /\ n' = Min(d, buf) /\ iter' = iter + 1
         /\ IF Min(d, buf) < buf THEN state' = "complete" /\ buf' = buf
            ELSE IF buf >= Clamp(m) THEN state' = "truncated" /\ buf' = buf
            ELSE state' = "loop" /\ buf' = Min(2 * buf, Clamp(m))
         /\ m' = m
    BY <1>1 DEF Attempt
  <2>2 d \in Nat /\ Clamp(m) \in Nat /\ Clamp(m)' = Clamp(m) BY <2>1 DEF WInv, Clamp
  <2>3 CASE Min(d, buf) < buf
    BY <2>1, <2>2, <2>3 DEF WInv, Min
  <2>4 CASE ~(Min(d, buf) < buf) /\ buf >= Clamp(m)
    BY <2>1, <2>2, <2>4 DEF WInv, Min
  <2>5 CASE ~(Min(d, buf) < buf) /\ ~(buf >= Clamp(m))
    BY <2>1, <2>2, <2>5 DEF WInv, Min
  <2> QED BY <2>3, <2>4, <2>5
<1>2 CASE UNCHANGED cvars
  BY <1>2 DEF WInv, cvars, Clamp
<1> QED BY <1>1, <1>2 DEF CNext

THEOREM WSafety == CSpec => [](Bounded /\ CompleteIff /\ GrowsToMaxmem)
<1>1 WInv => Bounded /\ CompleteIff /\ GrowsToMaxmem
  BY DEF WInv, Bounded, CompleteIff, GrowsToMaxmem
<1> QED BY WInit, WStep, <1>1, PTL DEF CSpec
=============================================================================
