----------------------------- MODULE Trace_Agg -----------------------------
(***************************************************************************)
(* Recorded aggregations of large random snapshots (up to thousands of     *)
(* goroutines drawn from MC_Agg's universe U), checked against the         *)
(* specification's canonical Key: every record lists, per bucket, the      *)
(* positions of its members.  One state per record.                        *)
(***************************************************************************)
EXTENDS MC_Agg

Trace == ndJsonDeserialize("agg_trace.ndjson")
VARIABLE l
TInit == l = 1 /\ Init
TNext == l <= Len(Trace) /\ l' = l + 1 /\ UNCHANGED vars
TSpec == TInit /\ [][TNext]_<<vars, l>>

Rec == Trace[l]
(* every position in exactly one bucket *)
RecPartition == l <= Len(Trace) =>
  LET all == FlattenSeq(Rec.buckets) IN
  /\ Len(all) = Len(Rec.snap)
  /\ {all[k] : k \in 1..Len(all)} = 1..Len(Rec.snap)
(* members of one bucket share the key of its first member; different buckets have different keys *)
RecClasses == l <= Len(Trace) =>
  LET K(p) == Key(U[Rec.snap[p]], Rec.lvl)
      B == Rec.buckets IN
  /\ \A k \in 1..Len(B) : \A x \in 1..Len(B[k]) : K(B[k][x]) = K(B[k][1])
  /\ \A j, k \in 1..Len(B) : j # k => K(B[j][1]) # K(B[k][1])
Accepted == TLCGet("stats").diameter - 1 = Len(Trace)
=============================================================================
