SPECIFICATION Spec
CONSTANTS
  MaxLine = 5
  MaxDecl = 3
INVARIANTS
  LookupRight
  Emit
CHECK_DEADLOCK FALSE
