SPECIFICATION Spec
CONSTANTS
  MaxF = 2
INVARIANTS
  MappingRight
  RootsArePrefixes
  LocalEndsWithRel
  PresentFilesMapped
  Emit
CHECK_DEADLOCK FALSE
