------------------------------ MODULE MC_Agg ------------------------------
(***************************************************************************)
(* Aggregate over a universe U of signature variants, each differing from  *)
(* a base signature in exactly one attribute: all sequences of at most     *)
(* MaxG goroutines x 4 levels x id order x every map iteration order.      *)
(* Serves C04 (partition), C05 (classes = Key), C06 (result is a function  *)
(* of the input), C12 (signature = Generalise(members)), C13 (result is    *)
(* sorted under Before).  Every terminal state is emitted for replay.      *)
(***************************************************************************)
EXTENDS Aggregate, Json

CONSTANTS MaxG,
          Univ      \* "one": one attribute varies at a time; "merge": members of one class that force merges

Fr(fn, file, line, args) == [fn |-> fn, file |-> file, dirsrc |-> file, line |-> line, loc |-> "Unknown", main |-> FALSE, args |-> args]
A0 == Args(<<Sc(600000, TRUE), Sc(5, FALSE), Ag(<<Sc(700000, TRUE), Sc(2, FALSE)>>, FALSE)>>, FALSE)
Cr(fn) == <<Fr(fn, "c.go", 3, Args(<<>>, FALSE))>>
Base == [state |-> "s1", created |-> Cr("c1"), locked |-> FALSE, smin |-> 0, smax |-> 0, elided |-> FALSE,
         fr |-> << Fr("f", "a.go", 1, A0) >>]
WithArgs(a) == [Base EXCEPT !.fr = <<Fr("f", "a.go", 1, a)>>]
Ag2(x, y) == Ag(<<x, y>>, FALSE)

UOne == << Base,
        [Base EXCEPT !.state = "s2"],                                   \* 2 state
        [Base EXCEPT !.created = Cr("c2")],                             \* 3 creator
        [Base EXCEPT !.created = <<>>],                                 \* 4 no creator
        [Base EXCEPT !.locked = TRUE],                                  \* 5 lock
        [Base EXCEPT !.smin = 3, !.smax = 3],                           \* 6 sleep
        [Base EXCEPT !.smin = 7, !.smax = 7, !.locked = TRUE],          \* 7 sleep + lock
        [Base EXCEPT !.elided = TRUE],                                  \* 8 frames elided
        [Base EXCEPT !.fr = <<Fr("g", "a.go", 1, A0)>>],                \* 9 function
        [Base EXCEPT !.fr = <<Fr("f", "b.go", 1, A0)>>],                \* 10 file
        [Base EXCEPT !.fr = <<Fr("f", "a.go", 2, A0)>>],                \* 11 line
        [Base EXCEPT !.fr = Base.fr \o <<Fr("h", "a.go", 9, Args(<<>>, FALSE))>>],   \* 12 stack length
        WithArgs(Args(<<Sc(600001, TRUE), Sc(5, FALSE), Ag2(Sc(700000, TRUE), Sc(2, FALSE))>>, FALSE)),   \* 13 pointer value
        WithArgs(Args(<<Sc(600000, TRUE), Sc(6, FALSE), Ag2(Sc(700000, TRUE), Sc(2, FALSE))>>, FALSE)),   \* 14 non-pointer value
        WithArgs(Args(<<Sc(7, FALSE), Sc(5, FALSE), Ag2(Sc(700000, TRUE), Sc(2, FALSE))>>, FALSE)),        \* 15 pointer -> non-pointer
        WithArgs(Args(<<Sc(600000, TRUE), TooBig, Ag2(Sc(700000, TRUE), Sc(2, FALSE))>>, FALSE)),          \* 16 offset too large
        WithArgs(Args(<<Sc(600000, TRUE), Inacc(Sc(5, FALSE)), Ag2(Sc(700000, TRUE), Sc(2, FALSE))>>, FALSE)), \* 17 inaccurate marker
        WithArgs(Args(<<Sc(600000, TRUE), Sc(5, FALSE), Ag2(Sc(700001, TRUE), Sc(2, FALSE))>>, FALSE)),   \* 18 nested pointer value
        WithArgs(Args(<<Sc(600000, TRUE), Sc(5, FALSE), Ag2(Sc(700000, TRUE), Sc(3, FALSE))>>, FALSE)),   \* 19 nested non-pointer value
        WithArgs(Args(<<Sc(600000, TRUE), Sc(5, FALSE), Ag(<<Sc(700000, TRUE)>>, FALSE)>>, FALSE)),        \* 20 nested arity
        WithArgs(Args(<<Sc(600000, TRUE), Sc(5, FALSE), Ag(<<Sc(700000, TRUE), Sc(2, FALSE)>>, TRUE)>>, FALSE)), \* 21 nested elision
        WithArgs(Args(<<Sc(600000, TRUE), Sc(5, FALSE)>>, FALSE)),                                           \* 22 arity
        WithArgs(Args(<<Sc(600000, TRUE), Sc(5, FALSE), Ag2(Sc(700000, TRUE), Sc(2, FALSE))>>, TRUE)),      \* 23 args elided
        WithArgs(Args(<<Sc(600000, TRUE), Sc(5, FALSE), Sc(2, FALSE)>>, FALSE)),                            \* 24 aggregate -> scalar
        [Base EXCEPT !.smin = 1, !.smax = 1],                           \* 25 sleep of one minute
        \* 26, 27: creation STACKS of two frames (race reports) that differ in the outer frame only
        [Base EXCEPT !.created = Cr("c1") \o <<Fr("c2", "c.go", 3, Args(<<>>, FALSE))>>],
        [Base EXCEPT !.created = Cr("c1") \o <<Fr("c1", "c.go", 4, Args(<<>>, FALSE))>>],
        \* 28: nil where the others hold a pointer (a non-pointer value, like 15, but the one a generalised slot could be mistaken to cover)
        WithArgs(Args(<<Sc(0, FALSE), Sc(5, FALSE), Ag2(Sc(700000, TRUE), Sc(2, FALSE))>>, FALSE)),
        \* 29: the literal 0 where 16 has the too-large marker '_' (whose value is recorded as 0 too)
        WithArgs(Args(<<Sc(600000, TRUE), Sc(0, FALSE), Ag2(Sc(700000, TRUE), Sc(2, FALSE))>>, FALSE)),
        \* 30: a file of the same base name in another directory
        [Base EXCEPT !.fr = <<[Fr("f", "d/a.go", 1, A0) EXCEPT !.dirsrc = "d/a.go"]>>]
     >>

(* Members of ONE similarity class (at the coarser levels) in which every
   field that merge() has to carry over is non-default - frames elided,
   argument list elided, a creator, a second frame - and which differ in the
   things merge() combines: sleep, lock, pointer and non-pointer values at
   top level and inside an aggregate.  Sequences of these make the key of a
   bucket go through several merges before later members are matched.       *)
E0 == Args(<<Sc(600000, TRUE), Sc(5, FALSE), Ag(<<Sc(700000, TRUE), Sc(2, FALSE)>>, TRUE)>>, TRUE)
EBase == [state |-> "s1", created |-> Cr("c1"), locked |-> FALSE, smin |-> 2, smax |-> 2, elided |-> TRUE,
          fr |-> << Fr("f", "a.go", 1, E0), Fr("h", "b.go", 9, Args(<<Sc(1, FALSE)>>, FALSE)) >>]
EArgs(a) == [EBase EXCEPT !.fr[1].args = a]
UMerge == << EBase,
             [EBase EXCEPT !.smin = 5, !.smax = 5],
             [EBase EXCEPT !.smin = 0, !.smax = 0],
             [EBase EXCEPT !.smin = 1, !.smax = 1],
             [EBase EXCEPT !.locked = TRUE],
             EArgs(Args(<<Sc(600001, TRUE), Sc(5, FALSE), Ag(<<Sc(700000, TRUE), Sc(2, FALSE)>>, TRUE)>>, TRUE)),
             EArgs(Args(<<Sc(600000, TRUE), Sc(5, FALSE), Ag(<<Sc(700001, TRUE), Sc(2, FALSE)>>, TRUE)>>, TRUE)),
             EArgs(Args(<<Sc(600000, TRUE), Sc(6, FALSE), Ag(<<Sc(700000, TRUE), Sc(2, FALSE)>>, TRUE)>>, TRUE)),
             EArgs(Args(<<Sc(600000, TRUE), Sc(5, FALSE), Ag(<<Sc(700000, TRUE), Sc(3, FALSE)>>, TRUE)>>, TRUE)),
             [EBase EXCEPT !.fr[2].args = Args(<<Sc(2, FALSE)>>, FALSE)],
             \* the same non-pointer value, marked inaccurate ('?'): same class as EBase at every level
             EArgs(Args(<<Sc(600000, TRUE), Inacc(Sc(5, FALSE)), Ag(<<Sc(700000, TRUE), Sc(2, FALSE)>>, TRUE)>>, TRUE)),
             \* locked AND a different non-pointer value: a second bucket that is locked too and ties with the first
             [EArgs(Args(<<Sc(600000, TRUE), Sc(6, FALSE), Ag(<<Sc(700000, TRUE), Sc(2, FALSE)>>, TRUE)>>, TRUE)) EXCEPT !.locked = TRUE]
          >>

U == IF Univ = "one" THEN UOne ELSE UMerge

MCTokRank == [t \in {"s1","s2","f","g","h","a.go","b.go","c.go","c1","c2","d/a.go"} |->
                CASE t = "d/a.go" -> 0 [] t = "a.go" -> 1 [] t = "b.go" -> 2 [] t = "c.go" -> 3 [] t = "c1" -> 4 [] t = "c2" -> 5
                  [] t = "f" -> 6 [] t = "g" -> 7 [] t = "h" -> 8 [] t = "s1" -> 9 [] t = "s2" -> 10]

VARIABLES phase, snap, lvl, rev, bmap, i, order, result
vars == <<phase, snap, lvl, rev, bmap, i, order, result>>

Init == /\ phase = "gen" /\ snap = <<>> /\ lvl = "ExactFlags" /\ rev = "asc"
        /\ bmap = {} /\ i = 1 /\ order = <<>> /\ result = <<>>

Pick == /\ phase = "gen" /\ Len(snap) < MaxG
        /\ \E u \in 1..Len(U) : snap' = Append(snap, u)
        /\ UNCHANGED <<phase, lvl, rev, bmap, i, order, result>>
Go == /\ phase = "gen" /\ snap # <<>>
      /\ \E l \in LevelSet : \E r \in {"asc", "desc", "zig"} : lvl' = l /\ rev' = r
      /\ phase' = "loop" /\ UNCHANGED <<snap, bmap, i, order, result>>

N == Len(snap)
(* goroutine id of the p-th printed goroutine: ascending, descending, or the first one lowest and
   the others descending (so that ids inside a bucket arrive neither sorted nor reversed)          *)
IdOf(p) == CASE rev = "asc" -> p [] rev = "desc" -> N + 1 - p [] OTHER -> IF p = 1 THEN 1 ELSE N + 2 - p
Sig(p) == U[snap[p]]

(* bucket.go:49-73: find a similar key (map iteration order!) or create one *)
Add ==
  /\ phase = "loop" /\ i <= N
  /\ LET g == Sig(i)
         sim == {b \in bmap : Similar(b.key, g, lvl)} IN
     IF sim # {}
     THEN \E b \in sim :
            bmap' = (bmap \ {b}) \cup {[key |-> IF Equal(b.key, g) THEN b.key ELSE Merge(b.key, g),
                                         pos |-> Append(b.pos, i), first |-> b.first \/ (i = 1)]}
     ELSE bmap' = bmap \cup {[key |-> g, pos |-> <<i>>, first |-> (i = 1)]}
  /\ i' = i + 1 /\ UNCHANGED <<phase, snap, lvl, rev, order, result>>

SortIds(ps) == SortSeq([k \in 1..Len(ps) |-> IdOf(ps[k])], <)
Bucket(b) == [sig |-> b.key, ids |-> SortIds(b.pos), first |-> b.first, pos |-> b.pos]

(* bucket.go:74-78: range over the map = any order *)
Collect == /\ phase = "loop" /\ i > N
           /\ order' \in SetToSeqs({Bucket(b) : b \in bmap})
           /\ phase' = "sort" /\ UNCHANGED <<snap, lvl, rev, bmap, i, result>>

(* sort.SliceStable with the comparator: insertion sort is a stable sort *)
RECURSIVE Insert(_,_), StableSort(_)
Insert(sorted, x) == IF sorted = <<>> THEN <<x>>
                     ELSE IF Before(x, Head(sorted)) THEN <<x>> \o sorted
                     ELSE <<Head(sorted)>> \o Insert(Tail(sorted), x)
RECURSIVE InsAll(_,_)
InsAll(acc, rest) == IF rest = <<>> THEN acc ELSE InsAll(Insert(acc, Head(rest)), Tail(rest))
(* stable: equal elements keep their order, so insert from the right end *)
StableSort(q) == InsAll(<<>>, Reverse(q))

Sort == /\ phase = "sort"
        /\ result' = StableSort(order)
        /\ order' = <<>>          \* forget the iteration order: final states that agree are one state
        /\ phase' = "done" /\ UNCHANGED <<snap, lvl, rev, bmap, i>>

Next == Pick \/ Go \/ Add \/ Collect \/ Sort
Spec == Init /\ [][Next]_vars

---------------------------------------------------------------------------
Done == phase = "done"
Positions == 1..N
InBucket(b, p) == \E x \in 1..Len(b.pos) : b.pos[x] = p

(* C04 *)
Partition == Done =>
   /\ \A p \in Positions : Cardinality({k \in 1..Len(result) : InBucket(result[k], p)}) = 1
   /\ \A k \in 1..Len(result) :
        /\ result[k].ids # <<>>
        /\ \A x \in 1..(Len(result[k].ids) - 1) : result[k].ids[x] < result[k].ids[x+1]
        /\ result[k].first = InBucket(result[k], 1)
(* C05 *)
Classes == Done =>
   \A p, q \in Positions :
      (\E k \in 1..Len(result) : InBucket(result[k], p) /\ InBucket(result[k], q))
        <=> Key(Sig(p), lvl) = Key(Sig(q), lvl)
KeyKept == \A b \in bmap : Key(b.key, lvl) = Key(Sig(b.pos[1]), lvl)
AtMostOneSimilar == phase = "loop" /\ i <= N => Cardinality({b \in bmap : Similar(b.key, Sig(i), lvl)}) <= 1
(* C12 *)
Generalises == Done =>
   \A k \in 1..Len(result) :
      result[k].sig = Generalise([x \in 1..Len(result[k].pos) |-> Sig(result[k].pos[x])])
(* C13 / C06: the result is sorted under the comparator, and the comparator
   leaves no two buckets unordered, so the result is a function of the input *)
Sorted == Done => \A a, b \in 1..Len(result) : a < b => Before(result[a], result[b]) /\ ~Before(result[b], result[a])
FirstFirst == Done => result[1].first
(* C06 *)
Deterministic == Done =>
   [k \in 1..Len(result) |-> [sig |-> result[k].sig, ids |-> result[k].ids, first |-> result[k].first]]
     = Canon([p \in 1..N |-> Sig(p)], [p \in 1..N |-> IdOf(p)], lvl)

(* static facts about the universe *)
SimIsKey == \A a, b \in 1..Len(U) : \A l \in LevelSet : Similar(U[a], U[b], l) <=> Key(U[a], l) = Key(U[b], l)
Refines == \A a, b \in 1..Len(U) : \A k \in 1..3 :
              Key(U[a], Levels[k]) = Key(U[b], Levels[k]) => Key(U[a], Levels[k+1]) = Key(U[b], Levels[k+1])
SleepNeverSeparates == \A l \in LevelSet : Key(UOne[1], l) = Key(UOne[6], l) /\ Key(UMerge[1], l) = Key(UMerge[2], l)
ASSUME SimIsKey /\ Refines /\ SleepNeverSeparates

ASSUME PrintT("UNIV " \o ToJson([U |-> U]))
Emit == Done => PrintT("CASE " \o ToJson([snap |-> snap, lvl |-> lvl, rev |-> rev,
             buckets |-> [k \in 1..Len(result) |-> [ids |-> result[k].ids, first |-> result[k].first, sig |-> result[k].sig]]]))
=============================================================================
