------------------------------ MODULE MC_Html ------------------------------
(* Every branch of the URL builders x both renderers.  Emits each branch with
   the literal prefix the specification predicts for each link.              *)
EXTENDS Html, Json

Branches == [loc : Locs, rel : RelShapes, local : BOOLEAN, remote : BOOLEAN, hasimport : BOOLEAN, exported : BOOLEAN,
             main : BOOLEAN, kind : {"aggregated", "snapshot", "race"}]
VARIABLES b, phase
vars == <<b, phase>>
Init == phase = "start" /\ b = CHOOSE x \in Branches : TRUE
Gen == phase = "start" /\ b' \in Branches /\ phase' = "done"
Next == Gen
Spec == Init /\ [][Next]_vars

Done == phase = "done"
LinksSafe == Done => SafeLink(SrcPieces(b)) /\ SafeLink(PkgPieces(b)) /\ Sanitised(SrcPieces(b)) /\ Sanitised(PkgPieces(b))
(* no source link at all only when there is nothing to link to *)
RepoShape(r) == r \in {"github3", "github3ver", "github3verodd", "github3pseudo", "github3atfile", "golangx", "golangxver", "vendorgithub"}
LinkPresent == Done => (SrcPieces(b) = <<>> <=> (b.loc # "Stdlib" /\ ~RepoShape(b.rel) /\ ~b.local /\ ~b.remote))
Prefix(p) == IF p = <<>> THEN "" ELSE p[1].text
Emit == Done => PrintT("CASE " \o ToJson([b |-> b, src |-> Prefix(SrcPieces(b)), pkg |-> Prefix(PkgPieces(b)),
                                          rawrepo |-> UsesNone(SrcPieces(b))]))
=============================================================================
