------------------------------ MODULE MC_Names ------------------------------
(* Every distribution of values over at most MaxG goroutines and MaxS scalar
   slots (with frames and one level of aggregate nesting), built one slot at a
   time.  Emits each dump with the labelling for replay.                     *)
EXTENDS Names, Json

CONSTANTS MaxG, MaxS

Values == (1..NP) \cup {1001, 1002, 1003}
VARIABLES d, n, el
vars == <<d, n, el>>
(* el: the runtime cut every aggregate short ("{v, ...}").  The marker carries no value (Flat
   ignores it), so the labelling - and every invariant below - is the same with and without it;
   the replay prints the dump accordingly and must find the same names.                        *)
Init == d = << << <<>> >> >> /\ n = 0 /\ el \in BOOLEAN

Sv(v) == [k |-> "v", v |-> v, f |-> <<>>]
Sa(f) == [k |-> "a", v |-> 0, f |-> f]
LastG == d[Len(d)]
LastF == LastG[Len(LastG)]
SetLastF(f) == [d EXCEPT ![Len(d)] = [LastG EXCEPT ![Len(LastG)] = f]]

AddValue == /\ n < MaxS
            /\ \E v \in Values : d' = SetLastF(Append(LastF, Sv(v)))
            /\ n' = n + 1 /\ UNCHANGED el
(* a value inside an aggregate: either open a new aggregate or extend the last one *)
AddNested == /\ n < MaxS
             /\ \E v \in Values :
                  \/ d' = SetLastF(Append(LastF, Sa(<<Sv(v)>>)))
                  \/ /\ LastF # <<>> /\ LastF[Len(LastF)].k = "a"
                     /\ d' = SetLastF([LastF EXCEPT ![Len(LastF)] = Sa(Append(@.f, Sv(v)))])
             /\ n' = n + 1 /\ UNCHANGED el
NewFrame == /\ LastF # <<>> /\ Len(LastG) < 2
            /\ d' = [d EXCEPT ![Len(d)] = Append(LastG, <<>>)] /\ UNCHANGED <<n, el>>
NewGor == /\ LastF # <<>> /\ Len(d) < MaxG
          /\ d' = Append(d, << <<>> >>) /\ UNCHANGED <<n, el>>
Next == AddValue \/ AddNested \/ NewFrame \/ NewGor
Spec == Init /\ [][Next]_vars

A == AllValues(d)
(* the algorithm computes the declarative labelling *)
AlgoIsLabel == \A v \in 1..NP : Algo(d)[v] = Label(d, v)
(* C15 *)
SameValueSameName == \A j, k \in 1..Len(A) : A[j] = A[k] => NamesOf(d)[j] = NamesOf(d)[k]
DifferentValuesDifferentNames ==
   \A j, k \in 1..Len(A) : (NamesOf(d)[j] # 0 /\ NamesOf(d)[j] = NamesOf(d)[k]) => A[j] = A[k]
RecurringNamed == \A v \in 1..NP : Count(A, v) > 1 => Label(d, v) # 0
Dense == LET used == {Label(d, v) : v \in Ptrs(d)} \ {0} IN used = 1..Cardinality(used)
Ascending == \A u, v \in Ptrs(d) :
   /\ (u \in GroupA(d) /\ v \in GroupA(d) /\ u < v => Label(d, u) < Label(d, v))
   /\ (u \in GroupB(d) /\ v \in GroupB(d) /\ u < v => Label(d, u) < Label(d, v))
   /\ (u \in GroupA(d) /\ v \in GroupB(d) => Label(d, u) < Label(d, v))
NonPointersUnnamed == \A k \in 1..Len(A) : ~IsPtr(A[k]) => NamesOf(d)[k] = 0

Emit == (n > 0 /\ LastF # <<>>) => PrintT("CASE " \o ToJson([d |-> d, names |-> NamesOf(d), el |-> el]))
=============================================================================
