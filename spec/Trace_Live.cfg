SPECIFICATION TSpec
INVARIANTS
  RecOK
POSTCONDITION Accepted
CHECK_DEADLOCK FALSE
