------------------------------- MODULE Reader -------------------------------
(***************************************************************************)
(* stack/reader.go: fill / readSlice / readLine over an abstract stream.   *)
(*                                                                         *)
(* The stream is N cells; NL is the set of (0-based) cell offsets holding  *)
(* '\n'.  The buffer content is never stored: buf[i] = stream[off+i], so   *)
(* only the cursors matter and the same module serves B = 4 cells          *)
(* (exhaustive) and B = 16384 bytes (trace validation).                    *)
(*                                                                         *)
(* The source's delivery schedule is nondeterministic: any chunk that fits *)
(* the offered space, zero-length reads, and the end of the stream (EOF or *)
(* an error) reported together with the last data or by a separate read.   *)
(* One action per step of the code:                                        *)
(*   Search  readSlice's loop head: newline found -> return the line;      *)
(*           pending error -> return the rest with it; buffer full ->      *)
(*           readLine accumulates and goes on; else fill                   *)
(*   Slide   fill(): move the unread bytes to the front                    *)
(*   Read    fill(): one rd.Read call                                      *)
(***************************************************************************)
EXTENDS Naturals, Sequences, FiniteSets, TLC

CONSTANTS B,        \* buffer size in cells (16*1024 bytes in the code)
          Retry     \* zero-length read retry bound (100 in the code)

VARIABLES N, NL,        \* the stream
          fin,          \* how the source ends: "eof" | "err"
          withData,     \* final error delivered together with the last data?
          pos,          \* cells already handed out by the source
          off, r, w,    \* off: stream offset of buf[0]; read and write cursors
          rerr,         \* error pending in the reader ("" none)
          pc,           \* control point: "search" | "fill" | "read" | "end" | "PANIC"
          sr,           \* search start (relative to r) in readSlice
          acc,          \* cells accumulated by readLine for an over-long line
          zeros,        \* consecutive zero-length reads in the current fill
          lines,        \* returned lines: <<from, to, err>> (absolute, `to' exclusive)
          reads         \* history: the schedule so far, <<n, err>>

rvars == <<N, NL, fin, withData, pos, off, r, w, rerr, pc, sr, acc, zeros, lines, reads>>

RInit0 == /\ pos = 0 /\ off = 0 /\ r = 0 /\ w = 0 /\ rerr = "" /\ pc = "search"
          /\ sr = 0 /\ acc = 0 /\ zeros = 0 /\ lines = <<>> /\ reads = <<>>

NlIn(a, b) == {p \in NL : p >= a /\ p < b}
MinOf(S) == CHOOSE x \in S : \A y \in S : x <= y

Return(from, to, e) ==
    /\ lines' = Append(lines, <<from, to, e>>)
    /\ acc' = 0 /\ sr' = 0
    /\ pc' = IF e = "" THEN "search" ELSE "end"

(* readSlice loop head (reader.go:57-78) and readLine's accumulation (:88-103) *)
Search ==
  /\ pc = "search"
  /\ LET cand == NlIn(off + r + sr, off + w) IN
     IF cand # {}
     THEN LET p == MinOf(cand) IN
          /\ Return(off + r - acc, p + 1, "")
          /\ r' = p + 1 - off
          /\ UNCHANGED <<N, NL, fin, withData, pos, off, w, rerr, zeros, reads>>
     ELSE IF rerr # ""
     THEN /\ Return(off + r - acc, off + w, rerr)
          /\ r' = w /\ rerr' = ""
          /\ UNCHANGED <<N, NL, fin, withData, pos, off, w, zeros, reads>>
     ELSE IF w - r = B
     THEN /\ acc' = acc + B /\ r' = w /\ sr' = 0 /\ pc' = "search"   \* errBufferFull: readLine accumulates
          /\ UNCHANGED <<N, NL, fin, withData, pos, off, w, rerr, zeros, lines, reads>>
     ELSE /\ sr' = w - r /\ pc' = "fill"
          /\ UNCHANGED <<N, NL, fin, withData, pos, off, r, w, rerr, acc, zeros, lines, reads>>

(* fill(): slide (reader.go:25-34) *)
Slide ==
  /\ pc = "fill"
  /\ off' = off + r /\ w' = w - r /\ r' = 0 /\ zeros' = 0
  /\ pc' = IF w - r >= B THEN "PANIC" ELSE "read"
  /\ UNCHANGED <<N, NL, fin, withData, pos, rerr, sr, acc, lines, reads>>

(* fill(): one Read call delivering n cells (reader.go:36-50) *)
ReadN(n) ==
  /\ pc = "read"
  /\ n <= B - w /\ n <= N - pos
  /\ \/ /\ pos + n < N \/ (pos + n = N /\ n > 0 /\ ~withData)        \* plain data, or a zero-length read
        /\ (n = 0 => pos < N)
        /\ w' = w + n /\ pos' = pos + n
        /\ reads' = Append(reads, <<n, "">>)
        /\ IF n > 0 THEN pc' = "search" /\ zeros' = 0 /\ rerr' = rerr
           ELSE IF zeros + 1 >= Retry THEN pc' = "search" /\ rerr' = "noprogress" /\ zeros' = 0
           ELSE pc' = "read" /\ zeros' = zeros + 1 /\ rerr' = rerr
     \/ /\ pos + n = N /\ (n = 0 \/ withData)                          \* the end of the stream
        /\ w' = w + n /\ pos' = N
        /\ rerr' = fin /\ pc' = "search" /\ zeros' = 0
        /\ reads' = Append(reads, <<n, fin>>)
  /\ UNCHANGED <<N, NL, fin, withData, off, r, sr, acc, lines>>

Read == \E n \in 0..B : ReadN(n)

RNext == Search \/ Slide \/ Read

---------------------------------------------------------------------------
TypeOK == r <= w /\ w <= B /\ pos <= N /\ off + w = pos
NoPanic == pc # "PANIC"

(* C09: the k-th returned line is exactly the k-th newline-delimited piece of
   the stream, whatever the schedule; only the last may be unterminated, and
   it carries the final error.                                              *)
LinesRight ==
  \A k \in 1..Len(lines) :
     /\ lines[k][1] = (IF k = 1 THEN 0 ELSE lines[k-1][2])
     /\ lines[k][3] = "" => (lines[k][2] - 1) \in NL /\ NlIn(lines[k][1], lines[k][2] - 1) = {}
     /\ lines[k][3] # "" => NlIn(lines[k][1], lines[k][2]) = {} /\ k = Len(lines)

(* C11: the source is never asked for more while a complete line is buffered,
   i.e. when the reader blocks in Read every complete line delivered so far
   has been returned to the scanner.                                        *)
NoReadWhileLine == pc = "read" => NlIn(off + r, off + w) = {}
ReturnedAll == pc = "read" =>
   LET done == IF lines = <<>> THEN 0 ELSE lines[Len(lines)][2] IN NlIn(done, pos) = {}

(* the final error is reported once, after all the data (or no progress) *)
Done == pc = "end" =>
   LET l == lines[Len(lines)] IN
   /\ l[3] # ""
   /\ (l[3] = "noprogress" \/ (l[2] = N /\ l[3] = fin))
(* fewer than Retry consecutive zero-length reads never end the stream *)
RetryOK == pc = "end" /\ lines[Len(lines)][3] = "noprogress" =>
   \E i \in 1..(Len(reads) - Retry + 1) : \A j \in i..(i + Retry - 1) : reads[j] = <<0, "">>
=============================================================================
