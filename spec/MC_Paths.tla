------------------------------ MODULE MC_Paths ------------------------------
(***************************************************************************)
(* C18: every layout in the bound - which local files exist, how the       *)
(* remote machine named its Go root and first GOPATH, which frames the     *)
(* dump holds - built in stages.  For layouts inside the fidelity domain   *)
(* (ground truth unambiguous) the transcribed algorithm must give every    *)
(* frame the location the layout implies; for every layout the detected    *)
(* roots must prefix the frames they explain.  Finished layouts are        *)
(* emitted for replay on real directories.                                 *)
(***************************************************************************)
EXTENDS Paths, Json

CONSTANTS MaxF      \* frames per dump

StdFiles == <<LocalGOROOT \o <<"src","fa","x">>, LocalGOROOT \o <<"src","fb","y">>>>
GpFiles  == <<LocalGOPATH1 \o <<"src","k","x">>, LocalGOPATH1 \o <<"pkg","mod","k","y">>, LocalGOPATH2 \o <<"src","u","z">>,
              LocalGOPATH1 \o <<"src","k","y">>>>   \* the module-cache file's tail also exists under the same GOPATH's src
ModFiles == <<ModRoot \o <<"x">>, ModRoot \o <<"fa","y">>, ModRoot2 \o <<"x">>>>
AllLocal == StdFiles \o GpFiles \o ModFiles \o <<GoModFile, GoModFile2>>

Rebase(f, from, to) == to \o Drop(f, Len(from))
(* what the remote machine printed for the files of this layout, plus paths that belong to no root *)
Candidates(rg, rp) ==
  <<Rebase(StdFiles[1], LocalGOROOT, rg), Rebase(StdFiles[2], LocalGOROOT, rg),
    Rebase(GpFiles[1], LocalGOPATH1, rp), Rebase(GpFiles[2], LocalGOPATH1, rp), GpFiles[3],
    Rebase(GpFiles[4], LocalGOPATH1, rp),   \* a second file of the directory of GpFiles[1]: either may be the one that exists locally
    ModFiles[1], ModFiles[2], ModFiles[3],
    <<"S","k","y">>,                 \* unrelated
    <<"R","fa","x">>,                \* a suffix that exists under the local GOROOT/src, but no src in front of it
    <<"H","src","k","fa","x">>,      \* a project kept below a directory named src; its tail exists under the local GOROOT/src
    <<"Q","testdir","testmain">>>>   \* go test's generated main

VARIABLES phase, fs, rg, rp, frames, idx
vars == <<phase, fs, rg, rp, frames, idx>>

Init == /\ phase = "fs" /\ fs = {} /\ frames = {} /\ idx = 1
        /\ rg \in {LocalGOROOT, <<"R">>, <<"R","S">>}
        /\ rp \in {LocalGOPATH1, <<"Q">>}
PickFile == /\ phase = "fs"
            /\ IF idx > Len(AllLocal) THEN phase' = "frames" /\ idx' = 1 /\ UNCHANGED fs
               ELSE /\ (fs' = fs \/ fs' = fs \cup {AllLocal[idx]}) /\ idx' = idx + 1 /\ UNCHANGED phase
            /\ UNCHANGED <<rg, rp, frames>>
PickFrame == /\ phase = "frames"
             /\ IF idx > Len(Candidates(rg, rp)) THEN phase' = (IF frames = {} THEN "void" ELSE "done") /\ UNCHANGED <<idx, frames>>
                ELSE /\ (frames' = frames \/ (Cardinality(frames) < MaxF /\ frames' = frames \cup {Candidates(rg, rp)[idx]}))
                     /\ idx' = idx + 1 /\ UNCHANGED phase
             /\ UNCHANGED <<rg, rp, fs>>
Next == PickFile \/ PickFrame
Spec == Init /\ [][Next]_vars

---------------------------------------------------------------------------
St == FindRoots(fs, frames)
Done == phase = "done"

(* ground truth: a root is detectable iff some frame under it exists locally
   (a module: iff its go.mod exists); frames under a detectable root are
   mapped even if their own file is missing                                *)
UnderStd(f) == HasPfx(f, rg \o SRC)
UnderGp1(f) == HasPfx(f, rp \o SRC) \/ HasPfx(f, rp \o PKGMOD)
UnderGp2(f) == HasPfx(f, LocalGOPATH2 \o SRC)
UnderMod(f) == HasPfx(f, ModRoot)
UnderMod2(f) == HasPfx(f, ModRoot2)
StdDetectable == \E h \in frames : UnderStd(h) /\ IsFile(fs, Rebase(h, rg, LocalGOROOT))
Gp1Detectable == \E h \in frames : UnderGp1(h) /\ IsFile(fs, Rebase(h, rp, LocalGOPATH1))
Gp2Detectable == \E h \in frames : UnderGp2(h) /\ IsFile(fs, h)
ModDetectable == IsFile(fs, GoModFile)
Mod2Detectable == IsFile(fs, GoModFile2)
Truth(f) ==
  LET base ==
    IF UnderStd(f) /\ StdDetectable
    THEN LET rel == Drop(f, Len(rg) + 1) IN [class |-> "Stdlib", local |-> LocalGOROOT \o SRC \o rel, rel |-> rel, imp |-> DirOf(rel)]
    ELSE IF UnderGp1(f) /\ Gp1Detectable
    THEN IF HasPfx(f, rp \o SRC)
         THEN LET rel == Drop(f, Len(rp) + 1) IN [class |-> "GOPATH", local |-> LocalGOPATH1 \o SRC \o rel, rel |-> rel, imp |-> DirOf(rel)]
         ELSE LET rel == Drop(f, Len(rp) + 2) IN [class |-> "GoPkg", local |-> LocalGOPATH1 \o PKGMOD \o rel, rel |-> rel, imp |-> DirOf(rel)]
    ELSE IF UnderGp2(f) /\ Gp2Detectable
    THEN LET rel == Drop(f, Len(LocalGOPATH2) + 1) IN [class |-> "GOPATH", local |-> f, rel |-> rel, imp |-> DirOf(rel)]
    ELSE IF UnderMod(f) /\ ModDetectable
    THEN LET rel == Drop(f, Len(ModRoot)) IN [class |-> "GoMod", local |-> f, rel |-> rel, imp |-> <<"M">> \o DirOf(rel)]
    ELSE IF UnderMod2(f) /\ Mod2Detectable
    THEN LET rel == Drop(f, Len(ModRoot2)) IN [class |-> "GoMod", local |-> f, rel |-> rel, imp |-> <<"M2">> \o DirOf(rel)]
    ELSE [class |-> "Unknown", local |-> <<>>, rel |-> <<>>, imp |-> <<>>]
  IN IF IsTestMain(f) THEN [base EXCEPT !.class = "Stdlib"] ELSE base

(* Outside the fidelity domain: module frames whose directory has no go.mod
   ("go run" pseudo-modules make everything below a present file a module), a
   local Go root / GOPATH that is the remote one while the other is renamed
   inside it, and nested roots.  There only the generic invariants hold.    *)
InDomain == \A f \in frames : (UnderMod(f) => ModDetectable) /\ (UnderMod2(f) => Mod2Detectable)

MappingRight == (Done /\ InDomain) => \A f \in frames : LocOf(fs, St, f) = Truth(f)
(* each detected remote root is a prefix of some frame it explains, and ends the way its class requires *)
RootsArePrefixes == Done =>
   /\ (St.goroot # <<>> => \E f \in frames : HasPfx(f, St.goroot \o SRC))
   /\ \A g \in St.gopaths : \E f \in frames : HasPfx(f, g.remote \o SRC) \/ HasPfx(f, g.remote \o PKGMOD)
   /\ \A m \in St.gomods : \E f \in frames : HasPfx(f, m.root)
(* a resolved local path ends with the relative path; unknown frames have no local path *)
LocalEndsWithRel == Done => \A f \in frames :
   LET l == LocOf(fs, St, f) IN
   /\ (l.local # <<>> => EndsWith(l.local, l.rel) /\ l.rel # <<>>)
   /\ (l.class = "Unknown" => l.local = <<>>)
(* every frame whose file exists locally (under a root of the layout) is mapped to exactly that file *)
PresentFilesMapped == (Done /\ InDomain) => \A f \in frames :
   LET t == Truth(f) IN (t.local # <<>> /\ IsFile(fs, t.local)) => LocOf(fs, St, f).local = t.local

Emit == Done => PrintT("CASE " \o ToJson([fs |-> fs, rg |-> rg, rp |-> rp, frames |-> SortPaths(frames), indomain |-> InDomain,
          goroot |-> St.goroot, gopaths |-> St.gopaths, gomods |-> St.gomods,
          locs |-> [k \in 1..Cardinality(frames) |-> LocOf(fs, St, SortPaths(frames)[k])]]))
=============================================================================
