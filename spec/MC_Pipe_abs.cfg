SPECIFICATION Spec
CONSTANTS
  MaxLen = 60
  Alpha = "full"
INVARIANTS
  NoPanic
  Progress
  GrammarOK
VIEW AbsView
CHECK_DEADLOCK FALSE
