------------------------------ MODULE MC_Less ------------------------------
(***************************************************************************)
(* C13: the comparison behind the bucket order (Aggregate.tla's SigLess,   *)
(* transcribed from Stack.less / Signature.less) is a strict weak order on *)
(* a universe S of signatures that vary stack length, per-frame location   *)
(* class, package-main membership, function, dir/file, line, lock flag and *)
(* state; it agrees with a lexicographic comparison of an explicit key     *)
(* tuple; and it honours the relevance contract.  All triples are visited  *)
(* in three stages (a, then b, then c) so that TLC's workers share them.   *)
(* Every ordered pair is emitted with the relation the specification       *)
(* computes, for comparison with the order the real Aggregate produces.    *)
(***************************************************************************)
EXTENDS Aggregate, Json, Integers

CONSTANTS Full      \* TRUE: 9 frame kinds; FALSE: 6

NoArgs == Args(<<>>, FALSE)
K(fn, file, line, loc, main) == [fn |-> fn, file |-> file, dirsrc |-> file, line |-> line, loc |-> loc, main |-> main, args |-> NoArgs]
(* TokRank follows the byte order of the concrete symbols: "main.mf" sorts after
   every "example.com/pkg.x".
   frame kinds: location and package-main membership follow from the function
   and the file, as they do in a real dump *)
KindsFull == << K("mf", "m/a.go", 1, "GoMod", TRUE),       \* package main inside a module
                K("pf", "p/a.go", 1, "GOPATH", FALSE),
                K("sf", "s/a.go", 1, "Stdlib", FALSE),
                K("cf", "c/a.go", 1, "GoPkg", FALSE),
                K("uf", "u/a.go", 1, "Unknown", FALSE),
                [K("pf", "ws.go", 1, "GOPATH", FALSE) EXCEPT !.dirsrc = ""],   \* a file without any directory: empty dir/file
                \* two more files of the same function whose base names (wl < ws < wu) order differently from
                \* their dir/file names ("" < a/wu.go < b/wl.go): a comparison that mixes the two keys cycles
                K("pf", "b/wl.go", 1, "GOPATH", FALSE),
                K("pf", "a/wu.go", 1, "GOPATH", FALSE),
                K("df", "d/a.go", 1, "GoMod", FALSE),
                K("pg", "p/a.go", 1, "GOPATH", FALSE),      \* same class, other function
                K("pf", "p/b.go", 1, "GOPATH", FALSE),      \* same class, other file
                K("pf", "p/a.go", 2, "GOPATH", FALSE) >>    \* same class, other line
Kinds == IF Full THEN KindsFull ELSE SubSeq(KindsFull, 1, 8)

Stacks == {<<>>} \cup {<<Kinds[i]>> : i \in 1..Len(Kinds)}
             \cup {<<Kinds[i], Kinds[j]>> : i, j \in 1..Len(Kinds)}
Mk(fr, locked, state) == [state |-> state, created |-> <<>>, locked |-> locked, smin |-> 0, smax |-> 0, elided |-> FALSE, fr |-> fr]
Plain == {Mk(fr, FALSE, "s1") : fr \in Stacks}
Special == {Mk(fr, lk, st) : fr \in {<<>>, <<Kinds[1]>>, <<Kinds[2]>>, <<Kinds[3]>>, <<Kinds[2], Kinds[3]>>, <<Kinds[5], Kinds[1]>>},
                             lk \in BOOLEAN, st \in {"s1", "s2"}}
(* the same frames with different (non-pointer) argument values: distinct buckets at every exact
   level whose stacks the comparison cannot tell apart, so that lock and state must decide *)
KA(v) == [Kinds[2] EXCEPT !.args = Args(<<Sc(v, FALSE)>>, FALSE)]
SpecialArgs == {Mk(<<KA(v)>>, lk, st) : v \in {5, 6}, lk \in BOOLEAN, st \in {"s1", "s2"}}
(* files of one function that differ only by the case of a letter, with a third between them in byte
   order, and lines that run the other way: a comparison that treats names case-insensitively cycles *)
KC(file, line) == K("pf", file, line, "GOPATH", FALSE)
SpecialCase == {Mk(<<KC("p/Conn.go", 90)>>, FALSE, "s1"), Mk(<<KC("p/Pool.go", 50)>>, FALSE, "s1"), Mk(<<KC("p/conn.go", 10)>>, FALSE, "s1")}
SSet == Plain \cup Special \cup SpecialArgs \cup SpecialCase
S == SetToSeq(SSet)       \* some fixed enumeration

MCTokRank == [t \in {"p/Conn.go", "p/Pool.go", "p/conn.go", "", "a/wu.go", "b/wl.go", "c/a.go", "d/a.go", "m/a.go", "p/a.go", "p/b.go", "s/a.go", "u/a.go", "cf", "df", "pf", "pg", "sf", "uf", "mf", "s1", "s2"} |->
   \* byte order: "p/Conn.go" < "p/Pool.go" < "p/a.go" < "p/b.go" < "p/conn.go" (upper case before lower case)
   CASE t = "" -> 0 [] t = "a/wu.go" -> 10 [] t = "b/wl.go" -> 20 [] t = "c/a.go" -> 30 [] t = "d/a.go" -> 40 [] t = "m/a.go" -> 50
     [] t = "p/Conn.go" -> 52 [] t = "p/Pool.go" -> 54 [] t = "p/a.go" -> 60 [] t = "p/b.go" -> 70 [] t = "p/conn.go" -> 75
     [] t = "s/a.go" -> 80 [] t = "u/a.go" -> 90
     [] t = "cf" -> 200 [] t = "df" -> 210 [] t = "pf" -> 220 [] t = "pg" -> 230 [] t = "sf" -> 240 [] t = "uf" -> 250 [] t = "mf" -> 260
     [] t = "s1" -> 300 [] t = "s2" -> 310]

VARIABLES a, b, c
vars == <<a, b, c>>
Init == a \in 1..Len(S) /\ b = 0 /\ c = 0
PickB == b = 0 /\ b' \in 1..Len(S) /\ UNCHANGED <<a, c>>
PickC == b # 0 /\ c = 0 /\ c' \in 1..Len(S) /\ UNCHANGED <<a, b>>
Next == PickB \/ PickC
Spec == Init /\ [][Next]_vars

L(x, y) == SigLess(S[x], S[y])
Incomp(x, y) == ~L(x, y) /\ ~L(y, x)

Irreflexive == ~L(a, a)
Asymmetric == b # 0 => ~(L(a, b) /\ L(b, a))
Transitive == c # 0 => (L(a, b) /\ L(b, c) => L(a, c))
IncompTransitive == c # 0 => (Incomp(a, b) /\ Incomp(b, c) => Incomp(a, c))

(* the explicit key: a lexicographic comparison of integer tuples *)
FrameKey(f) == <<TokRank[f.fn], TokRank[f.dirsrc], f.line>>
OrdKey(s) == <<0 - CountMain(s.fr), 0 - CountLoc(s.fr, "GoMod"), 0 - CountLoc(s.fr, "GOPATH"), 0 - CountLoc(s.fr, "GoPkg"),
               0 - CountLoc(s.fr, "Stdlib"), 0 - CountLoc(s.fr, "Unknown")>>
             \o FlattenSeq([i \in 1..Len(s.fr) |-> FrameKey(s.fr[i])])
             \o <<IF s.locked THEN 0 ELSE 1, TokRank[s.state]>>
RECURSIVE LexLess(_,_)
LexLess(x, y) == IF x = <<>> \/ y = <<>> THEN FALSE
                 ELSE IF Head(x) # Head(y) THEN Head(x) < Head(y)
                 ELSE LexLess(Tail(x), Tail(y))
(* equal counters imply equal lengths, so the keys being compared beyond the
   counters have the same length *)
KeyAgrees == b # 0 => (L(a, b) <=> LexLess(OrdKey(S[a]), OrdKey(S[b])))

(* the relevance contract *)
HasUser(s) == \E i \in 1..Len(s.fr) : s.fr[i].main \/ s.fr[i].loc \in {"GoMod", "GOPATH", "GoPkg"}
AllStdlib(s) == s.fr # <<>> /\ \A i \in 1..Len(s.fr) : s.fr[i].loc = "Stdlib" /\ ~s.fr[i].main
Contract == b # 0 =>
   /\ (AllStdlib(S[a]) /\ HasUser(S[b]) => L(b, a))
   /\ (CountMain(S[a].fr) > CountMain(S[b].fr) => L(a, b))

ASSUME PrintT("UNIV " \o ToJson([S |-> S]))
Emit == (b # 0 /\ c = 0) => PrintT("CASE " \o ToJson([a |-> a, b |-> b, less |-> L(a, b)]))
=============================================================================
