SPECIFICATION Spec
CONSTANTS
  Mode = "dump"
  MaxMut = 1
INVARIANTS
  MutNoPanic
  MutConservation
  MutProgress
  Emit
CHECK_DEADLOCK FALSE
