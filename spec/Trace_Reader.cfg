SPECIFICATION TSpec
CONSTANTS
  B = 16384
  Retry = 100
  Strict = TRUE
INVARIANTS
  TypeOK
  NoPanic
  LinesRight
  NoReadWhileLine
CONSTRAINT HighWater
POSTCONDITION Accepted
CHECK_DEADLOCK FALSE
