------------------------------ MODULE MC_Mut ------------------------------
(***************************************************************************)
(* Grammar-aware mutation of printed dumps and race reports, as            *)
(* specification actions (C03, C02, C07): start from a printed dump /      *)
(* report (Printer.tla), then delete a line, duplicate a line, swap two    *)
(* adjacent lines, or replace a line's body by a corrupt class (a function *)
(* line whose arguments do not parse, a file line whose number does not,   *)
(* a created-by line whose symbol does not, junk); up to MaxMut mutations. *)
(* Pipeline.tla predicts the complete outcome of every mutated stream      *)
(* (which lines are forwarded, where each call ends, partial snapshots,    *)
(* error classes) and its invariants (NoPanic, Conservation, Progress) are *)
(* checked on it; every mutated stream is emitted for replay, so that the  *)
(* real code is compared on malformed input too, not only watched for      *)
(* crashes.                                                                *)
(***************************************************************************)
EXTENDS Printer, Json

CONSTANTS Mode,     \* "dump" | "race"
          MaxMut

VARIABLES L, nmut, phase
vars == <<L, nmut, phase, ps>>

DumpSeeds ==
  LET g(nfr, el, cr) == [nfr |-> nfr, elide |-> el, created |-> cr]
      v0 == [ind |-> <<>>, find |-> <<"t">>, blankind |-> FALSE]
      v1 == [ind |-> <<"s","s">>, find |-> <<"t">>, blankind |-> FALSE]
      tails(v, d) == {PrintDump(d, v) \o TailLines(v, "eof"), PrintDump(d, v) \o TailLines(v, "blankjunk")}
      dumps == { <<g(1, 0, FALSE)>>, <<g(2, 1, TRUE)>>, <<g(0, 0, FALSE), g(1, 0, TRUE)>>, <<g(1, 0, TRUE), g(1, 1, FALSE)>>,
                 <<g(0, 0, TRUE), g(2, 0, FALSE)>> }
  IN UNION {tails(v0, d) \cup tails(v1, d) : d \in dumps}
RaceSeeds ==
  LET r(secs, tail) == PrintReport([nops |-> 2, nfr |-> <<1, 2>>, ids |-> <<7, 8>>, kinds |-> <<"r", "w">>,
                                    secs |-> secs, cfr |-> [j \in 1..Len(secs) |-> 1], cst |-> [j \in 1..Len(secs) |-> "running"]])
                       \o TailLines([ind |-> <<>>, find |-> <<"t">>, blankind |-> FALSE], tail)
  IN {r(<<1, 2>>, "eof"), r(<<2>>, "junk"), r(<<2, 1>>, "blankjunk")}
Seeds == IF Mode = "dump" THEN DumpSeeds ELSE RaceSeeds

Init == L \in Seeds /\ nmut = 0 /\ phase = "mut" /\ ps = PS0

Corrupt(l, cls) == [l EXCEPT !.body = cls, !.p = [id |-> 0, state |-> "", tok |-> "X"]]
Delete(i) == L' = SubSeq(L, 1, i - 1) \o SubSeq(L, i + 1, Len(L))
Duplicate(i) == L' = SubSeq(L, 1, i) \o SubSeq(L, i, Len(L))
Swap(i) == i < Len(L) /\ L' = [L EXCEPT ![i] = L[i+1], ![i+1] = L[i]]
Replace(i) == \E cls \in {"funcbad", "filebad", "createdbad", "junk", "blank"} :
                 /\ (cls = "filebad" => L[i].lead # <<>>)
                 /\ L' = [L EXCEPT ![i] = IF cls = "blank" THEN [Corrupt(L[i], cls) EXCEPT !.lead = <<>>] ELSE Corrupt(L[i], cls)]
Mutate == /\ phase = "mut" /\ nmut < MaxMut
          /\ \E i \in 1..Len(L) : Delete(i) \/ Duplicate(i) \/ Swap(i) \/ Replace(i)
          /\ nmut' = nmut + 1 /\ UNCHANGED <<phase, ps>>
Finish == /\ phase = "mut" /\ nmut > 0 /\ phase' = "done" /\ UNCHANGED <<L, nmut, ps>>
Next == Mutate \/ Finish
Spec == Init /\ [][Next]_vars

Done == phase = "done"
Res == RunAll(L)
(* Pipeline's invariants on the mutated stream *)
MutNoPanic == Done => \A i \in 1..Len(FinalCallsOf(Res)) : FinalCallsOf(Res)[i].err # "PANIC"
MutConservation == Done =>
   LET FC == FinalCallsOf(Res) IN
   /\ Rng(FlatFwd(FC)) \cup Rng(FlatCons(FC)) \cup Rng(FlatTail(FC)) = 1..Len(L)
   /\ Rng(FlatFwd(FC)) \cap Rng(FlatCons(FC)) = {}
   /\ StrictlyAscending(FlatFwd(FC) \o FlatTail(FC))
MutProgress == Done => \A i \in 1..Len(Res.calls) : Res.calls[i].stop > Res.calls[i].from \/ Res.calls[i].err = "eof"
Emit == Done => PrintT("CASE " \o ToJson([mode |-> "mut", lines |-> L, calls |-> FinalCallsOf(Res), ndump |-> 0, pp |-> PP(FinalCallsOf(Res))]))
=============================================================================
