SPECIFICATION CSpec
CONSTANTS
  Start = 4
  MaxM = 18
  MaxD = 20
INVARIANTS
  Bounded
  Terminates
  CompleteIff
  GrowsToMaxmem
CHECK_DEADLOCK FALSE
