----------------------------- MODULE Trace_Pipe -----------------------------
(***************************************************************************)
(* Trace validation of ScanSnapshot under the resume protocol on LONG      *)
(* streams (hundreds of lines, many dumps and race reports, junk that      *)
(* resembles fragments): far deeper than the exhaustive configurations of  *)
(* MC_Pipe reach.  The harness draws random sequences over MC_Pipe's       *)
(* alphabet, delivers them one line per Read to the real code and records  *)
(*   begin  the stream (alphabet indices, byte length of every line)       *)
(*   line   for the i-th line: how many bytes the pass-through writer      *)
(*          received between the Read that delivered it and the next one,  *)
(*          and how many calls had returned by then                        *)
(*   call   for every ScanSnapshot call: goroutine ids of its snapshot,    *)
(*          error class, bytes handed back (suffix + unread)               *)
(* TLC replays the stream through Pipeline.tla's PStep, one state per      *)
(* recorded event, and every observation must be the one the specification *)
(* predicts (under the listed deviations k1 / k2, as the real code has     *)
(* them today, or without them).                                           *)
(***************************************************************************)
EXTENDS MC_Pipe, Integers

Trace == ndJsonDeserialize("pipe_trace.ndjson")

VARIABLES l,        \* next event
          tp,       \* pipeline state after the lines consumed so far
          S,        \* the stream of the current execution: [inp, lens, eol]
          li,       \* lines delivered so far
          ck        \* calls checked so far
tvars == <<l, tp, S, li, ck, inp, lastEol, ps>>

Ev == Trace[l]
NoS == [inp |-> <<>>, lens |-> <<>>, eol |-> "lf"]
TInit == l = 1 /\ tp = PS0 /\ S = NoS /\ li = 0 /\ ck = 0 /\ inp = <<>> /\ lastEol = "lf" /\ ps = PS0

LineAt(i) == [A[S.inp[i]] EXCEPT !.eol = IF i = Len(S.inp) THEN S.eol ELSE "lf"]
Bytes(ix) == IF ix = {} THEN 0 ELSE LET q == SetToSeq(ix) IN
             LET RECURSIVE Sum(_) Sum(j) == IF j > Len(q) THEN 0 ELSE S.lens[q[j]] + Sum(j + 1) IN Sum(1)
SeqSet(q) == {q[i] : i \in 1..Len(q)}
(* everything forwarded so far, as the real code does it (deviations on) and as intended (off) *)
AllFwd(p, dev) ==
  LET cs == FinalCallsOf(p)
      one(c) == IF dev THEN (SeqSet(c.fwd) \ SeqSet(c.k1)) \cup (IF c.k2 # 0 THEN {c.k2} ELSE {})
                ELSE SeqSet(c.fwd)
  IN UNION {one(cs[i]) : i \in 1..Len(cs)}
(* lines held or handed back at EOF do not count as forwarded before the stream ends *)
FwdNow(p, dev) == LET held == SeqSet(p.b.held) \cup SeqSet(p.b.tail) IN
                  IF dev THEN AllFwd(p, TRUE) \ (held \ (IF p.b.k2 # 0 THEN {p.b.k2} ELSE {}))
                  ELSE AllFwd(p, FALSE) \ held

TBegin == /\ l <= Len(Trace) /\ Ev.ev = "begin"
          /\ S' = [inp |-> Ev.inp, lens |-> Ev.lens, eol |-> Ev.eol]
          /\ tp' = PS0 /\ li' = 0 /\ ck' = 0 /\ l' = l + 1
          /\ UNCHANGED <<inp, lastEol, ps>>

(* one line delivered: bytes written by the time the next Read is issued *)
TLine == /\ l <= Len(Trace) /\ Ev.ev = "line" /\ li < Len(S.inp)
         /\ LET q == PStep(tp, LineAt(li + 1)) IN
            /\ tp' = q
            /\ \/ Ev.written = Bytes(FwdNow(q, TRUE))
               \/ Ev.written = Bytes(FwdNow(q, FALSE))
            /\ (Ev.returned = 0 - 1 \/ Ev.returned = Len(q.calls))    \* C11: the call returned as soon as its ending line was delivered
         /\ li' = li + 1 /\ l' = l + 1 /\ UNCHANGED <<S, ck, inp, lastEol, ps>>

ErrOK(spec, obs) == CASE spec = "" -> obs = "none" [] spec = "eof" -> obs = "eof" [] spec = "parse" -> obs = "parse"
                      [] spec = "indent" -> obs \in {"parse", "none"} [] OTHER -> FALSE
TCall == /\ l <= Len(Trace) /\ Ev.ev = "call" /\ li = Len(S.inp)
         /\ LET cs == FinalCallsOf(tp)
                c == cs[ck + 1] IN
            /\ ck < Len(cs)
            /\ Ev.ids = [i \in 1..Len(c.snap) |-> c.snap[i].id]
            /\ Ev.ncalls = [i \in 1..Len(c.snap) |-> Len(c.snap[i].calls)]
            /\ ErrOK(c.err, Ev.err)
            /\ IF c.err = "eof"
               THEN Ev.rest \in {Bytes(SeqSet(c.tail)), Bytes(SeqSet(c.tail) \ (SeqSet(c.k1) \cup {c.k2}))}
               ELSE Ev.rest = Bytes(c.stop..Len(S.inp))
         /\ ck' = ck + 1 /\ l' = l + 1 /\ UNCHANGED <<tp, S, li, inp, lastEol, ps>>

TEnd == /\ l <= Len(Trace) /\ Ev.ev = "end"
        /\ ck = Len(FinalCallsOf(tp))                          \* no call more, no call less
        /\ l' = l + 1 /\ UNCHANGED <<tp, S, li, ck, inp, lastEol, ps>>

TNext == TBegin \/ TLine \/ TCall \/ TEnd
TSpec == TInit /\ [][TNext]_tvars

TNoPanic == \A i \in 1..Len(tp.calls) : tp.calls[i].err # "PANIC"
Accepted == TLCGet("stats").diameter - 1 = Len(Trace)
=============================================================================
