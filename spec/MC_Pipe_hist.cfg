SPECIFICATION Spec
CONSTANTS
  MaxLen = 3
  Alpha = "full"
INVARIANTS
  Conservation
  NoPanic
  Progress
  Disjoint
  PPConserves
  PPExitZeroMeansDelivered
  GrammarOK
PROPERTY
  CutProp
CHECK_DEADLOCK FALSE
