------------------------------ MODULE Pipeline ------------------------------
(***************************************************************************)
(* The ScanSnapshot loop (stack/context.go:160-208) and the documented     *)
(* resume protocol (feed the returned suffix back in front of the unread   *)
(* input and call again; internal/main.go:149-182 is one user of it).      *)
(*                                                                         *)
(* A stream is a sequence of lines (Scanner.tla's records).  The module is *)
(* written incrementally: FeedLine(l) delivers the next line of the stream *)
(* to the call in progress, which either                                   *)
(*   Consume   withholds it as part of the dump being parsed,              *)
(*   Hold      withholds it tentatively (separator / warning of a race     *)
(*             report that has not shown an operation yet),                *)
(*   Forward   writes it to the pass-through writer (after releasing any   *)
(*             tentatively held lines),                                    *)
(*   Stop      returns with this line as the head of the suffix, or        *)
(*   Footer    consumes it and returns (closing race separator).           *)
(* After a return the next call starts in a fresh scanner state AT THE     *)
(* SAME LINE (Stop) or at the next one (Footer).  When the stream ends the *)
(* call in progress returns EOF; lines it still holds tentatively, and an  *)
(* unterminated last line that is not part of a dump, are handed back in   *)
(* the suffix (`tail').                                                    *)
(*                                                                         *)
(* Lines are identified by their index in the stream, so conservation      *)
(* (every index is forwarded, consumed into a snapshot, or handed back,    *)
(* exactly once) is a statement about sets of indices.                     *)
(*                                                                         *)
(* Named deviations: behaviour of the real code that departs from this     *)
(* intended machine and is pinned by the repository's own tests            *)
(* (RaceHdr1Err..RaceHdr4Err, NothingLong), hence recorded as known        *)
(* findings rather than repaired.  Each call record says which lines they  *)
(* affect, so that a replay can tell "explained by exactly this deviation" *)
(* from anything else:                                                     *)
(*   k1 (Dev_DropHeld)  tentatively held race header lines are discarded   *)
(*        instead of being forwarded / handed back when no race operation  *)
(*        follows (context.go:556-562, 667-678, 699)                       *)
(*   k2 (Dev_ForwardFragment)  an unterminated last line seen while        *)
(*        looking for a dump is written to the pass-through writer instead *)
(*        of being handed back (context.go:487-491)                        *)
(***************************************************************************)
EXTENDS Scanner

(* The pipeline state is one record, so that the transition is a pure
   operator PStep(ps, l) that MC modules can also fold over a whole stream:
     s       scanner state of the call in progress
     n       number of lines fed so far
     from    index of the first line of the call in progress
     b       bookkeeping of the call in progress: [fwd, tail, held, cons, k1, k2]
     calls   completed calls
     ended   TRUE once an unterminated line was fed: nothing can follow
     closed  TRUE once the last call has already reported the end of the stream *)
VARIABLE ps
pvars == <<ps>>

B0 == [fwd |-> <<>>, tail |-> <<>>, held |-> <<>>, cons |-> <<>>, k1 |-> <<>>, k2 |-> 0]

PS0 == [s |-> InitS, n |-> 0, from |-> 1, b |-> B0, calls |-> <<>>, ended |-> FALSE, closed |-> FALSE]
PInit == ps = PS0

(* projection of a goroutine under construction to what the API exposes *)
ProjCall(c) == [fn |-> c.fn.tok, lead |-> c.lead, file |-> c.file.tok, flead |-> c.flead]
ProjG(g) == [id |-> g.id, first |-> g.first, state |-> g.hdr.state, tok |-> g.hdr.tok,
             race |-> g.race, elided |-> g.elided,
             calls |-> [j \in 1..Len(g.calls) |-> ProjCall(g.calls[j])],
             created |-> [j \in 1..Len(g.created) |-> ProjCall(g.created[j])]]
Snap(st) == [i \in 1..Len(st.gs) |-> ProjG(st.gs[i])]

(* ret: the index of the line whose scanning made the call return (0: the
   call returned because the stream ended)                                  *)
CallRec(fr, bk, st, stop, err, ret) ==
  [from |-> fr, fwd |-> bk.fwd, tail |-> bk.tail, cons |-> bk.cons, k1 |-> bk.k1, k2 |-> bk.k2,
   snap |-> Snap(st), stop |-> stop, err |-> err, ret |-> ret]

(* What one line does to a call in scanner state st0 with bookkeeping b0.
   Returns [s, b, ret, stop, err].                                          *)
Deliver(st0, b0, l, k) ==
  LET r == Step(st0, l)
      tent == st0.st \in TentativeStates
      Out(st, bk, ret, stop, err) == [s |-> st, b |-> bk, ret |-> ret, stop |-> stop, err |-> err]
      Release(bk) == [bk EXCEPT !.fwd = @ \o bk.held, !.k1 = @ \o bk.held, !.held = <<>>]
  IN
  IF r.consumed
  THEN IF r.s.st \in TentativeStates
       THEN \* Hold.  A second separator right after a first one releases the first.
            IF tent /\ r.s.st = "gotRaceHeader1"
            THEN Out(r.s, [Release(b0) EXCEPT !.held = <<k>>], FALSE, 0, "")
            ELSE Out(r.s, [b0 EXCEPT !.held = Append(@, k)], FALSE, 0, "")
       ELSE IF tent /\ r.s.st = "gotRaceOperationHeader"
       THEN \* the report materialised: the held lines are part of it
            Out(r.s, [b0 EXCEPT !.cons = (@ \o b0.held) \o <<k>>, !.held = <<>>], FALSE, 0, "")
       ELSE IF tent
       THEN \* the re-dispatched line starts a goroutine dump: release the held lines
            Out(r.s, [Release(b0) EXCEPT !.cons = Append(@, k)], FALSE, 0, "")
       ELSE IF r.s.st = "done"
       THEN \* Footer: consumed, and the call returns
            Out(r.s, [b0 EXCEPT !.cons = Append(@, k)], TRUE, k + 1, r.err)
       ELSE Out(r.s, [b0 EXCEPT !.cons = Append(@, k)], FALSE, 0, "")
  ELSE IF r.s.st = "looking"
  THEN IF l.eol = "none"
       THEN \* unterminated last line, not part of a dump: handed back at EOF
            \* together with what is still held (deviation k2 forwards it)
            Out(r.s, [b0 EXCEPT !.tail = (@ \o b0.held) \o <<k>>, !.k1 = @ \o b0.held, !.held = <<>>, !.k2 = k],
                FALSE, 0, "")
       ELSE \* Forward (after releasing what was held)
            Out(r.s, [Release(b0) EXCEPT !.fwd = Append(@, k)], FALSE, 0, "")
  ELSE \* Stop: line k is the head of the suffix.  Held lines (error in
       \* gotRaceHeader2) are released to the writer first.
       Out(r.s, Release(b0), TRUE, k, r.err)

(* PStep: deliver line l (index n+1).  If the call returns with the line
   unconsumed, the next call starts at the same line: deliver it again to a
   fresh call (which cannot return on it: a fresh call is `looking').
   An unterminated line is the last one and reaches the scanner together with
   the end of the stream: a call that returns on it without a parse error
   reports EOF itself, and no further call is made.                          *)
PStep(p, l) ==
  LET k  == p.n + 1
      d1 == Deliver(p.s, p.b, l, k)
      last == l.eol = "none"
      base == [p EXCEPT !.n = k, !.ended = last]
  IN
  IF ~d1.ret
  THEN [base EXCEPT !.s = d1.s, !.b = d1.b]
  ELSE IF last /\ d1.err = ""
  THEN [base EXCEPT !.calls = Append(@, CallRec(p.from, [d1.b EXCEPT !.tail = IF d1.stop = k THEN <<k>> ELSE <<>>],
                                                 d1.s, k + 1, "eof", k)),
                    !.closed = TRUE, !.s = InitS, !.from = k + 1, !.b = B0]
  ELSE LET rec == CallRec(p.from, d1.b, d1.s, d1.stop, d1.err, k) IN
       IF d1.stop = k + 1
       THEN \* footer consumed: the next call starts at the next line
            [base EXCEPT !.calls = Append(@, rec), !.s = InitS, !.from = k + 1, !.b = B0]
       ELSE LET d2 == Deliver(InitS, B0, l, k) IN
            [base EXCEPT !.calls = Append(@, rec), !.from = k, !.s = d2.s, !.b = d2.b]

FeedLine(l) == ~ps.ended /\ ps' = PStep(ps, l)

RECURSIVE RunFrom(_, _, _)
RunFrom(p, L, i) == IF i > Len(L) THEN p ELSE RunFrom(PStep(p, L[i]), L, i + 1)
(* the whole stream L scanned from the start *)
RunAll(L) == RunFrom(PS0, L, 1)

(* The stream as it stands, closed by EOF: the call in progress returns what
   it has; lines still held tentatively are handed back.                     *)
FinalCallsOf(p) ==
  IF p.closed THEN p.calls ELSE
  Append(p.calls, CallRec(p.from, [p.b EXCEPT !.tail = @ \o p.b.held, !.k1 = @ \o p.b.held, !.held = <<>>],
                          p.s, p.n + 1, "eof", 0))
FinalCalls == FinalCallsOf(ps)
calls == ps.calls
n == ps.n
s == ps.s
b == ps.b
ended == ps.ended

---------------------------------------------------------------------------
(* Properties of the pipeline, as state predicates over the history.        *)

Rng(q) == {q[i] : i \in 1..Len(q)}
RECURSIVE FlatFwd(_), FlatCons(_), FlatTail(_)
FlatFwd(cs)  == IF cs = <<>> THEN <<>> ELSE Head(cs).fwd  \o FlatFwd(Tail(cs))
FlatCons(cs) == IF cs = <<>> THEN <<>> ELSE Head(cs).cons \o FlatCons(Tail(cs))
FlatTail(cs) == IF cs = <<>> THEN <<>> ELSE Head(cs).tail \o FlatTail(Tail(cs))

StrictlyAscending(q) == \A i \in 1..(Len(q) - 1) : q[i] < q[i+1]

(* C02: every line index is forwarded, consumed or handed back exactly once,
   in order; nothing is duplicated, dropped or reordered.                    *)
Conservation ==
  LET FC == FinalCalls
      F == FlatFwd(FC)
      C == FlatCons(FC)
      T == FlatTail(FC)
  IN /\ StrictlyAscending(F \o T)
     /\ Rng(F) \cap Rng(C) = {} /\ Rng(T) \cap Rng(C) = {} /\ Rng(F) \cap Rng(T) = {}
     /\ Rng(F) \cup Rng(C) \cup Rng(T) = 1..n
     /\ \A i \in 1..Len(FC) :
          LET c == FC[i] IN
          /\ StrictlyAscending(c.cons)
          \* what is withheld belongs to a snapshot that is actually returned
          /\ (c.cons # <<>> => c.snap # <<>>)
          \* a call covers a contiguous range of the stream and hands over the rest
          /\ Rng(c.fwd) \cup Rng(c.cons) \cup Rng(c.tail) = c.from..(c.stop - 1)
          /\ (i < Len(FC) => FC[i+1].from = c.stop /\ c.tail = <<>>)

(* C03: the explicit crash value of Step is unreachable. *)
NoPanic == \A i \in 1..Len(calls) : calls[i].err # "PANIC"

(* C03/C07: every call that returns before the end of the stream has moved
   forward, so the resume loop terminates.                                  *)
Progress == \A i \in 1..Len(calls) : calls[i].stop > calls[i].from \/ calls[i].err = "eof"

(* C07: no stream position is scanned into two snapshots. *)
Disjoint == \A i, j \in 1..Len(calls) : i # j => Rng(calls[i].cons) \cap Rng(calls[j].cons) = {}

(* C10, line granularity: cutting the stream after any line yields a
   forwarded list that is a prefix of what any longer stream forwards, and
   the completed calls are unchanged.  (Action property over FeedLine.)     *)
CutMonotone == /\ IsPrefix(FlatFwd(FinalCalls), FlatFwd(FinalCallsOf(ps')))
               /\ IsPrefix(ps.calls, ps'.calls)

---------------------------------------------------------------------------
(***************************************************************************)
(* The command (cmd/pp, internal/main.go process()): scan, render what was *)
(* found, feed the remainder back in front of the unread input, until a    *)
(* call reports an error.  At the end of the stream the remainder is       *)
(* written out and the exit status is 0; after a parse error whatever was  *)
(* buffered is written, the unread input is lost, and the status is 1.     *)
(* Its output, call by call, as a sequence of items: a pass-through line   *)
(* of the input (by index), or the rendering of the snapshot of a call.    *)
(***************************************************************************)
PPStop(FC) == CHOOSE i \in 1..Len(FC) : FC[i].err # "" /\ \A j \in 1..(i-1) : FC[j].err = ""
LineItems(q, c) == [j \in 1..Len(q) |-> [k |-> "line", i |-> q[j], c |-> c]]      \* c: the call that writes it
PPCall(FC, i, last) ==
  LineItems(FC[i].fwd, i)
  \o (IF FC[i].snap # <<>> THEN <<[k |-> "render", i |-> i, c |-> i]>> ELSE <<>>)
  \o (IF last /\ FC[i].err = "eof" THEN LineItems(FC[i].tail, i) ELSE <<>>)
PPItems(FC) == LET st == PPStop(FC) IN FlattenSeq([i \in 1..st |-> PPCall(FC, i, i = st)])
(* the class "indent" leaves open whether an error is reported: no claim about the command then *)
PPDetermined(FC) == \A i \in 1..Len(FC) : FC[i].err \in {"", "eof"}
PPStatus(FC) == IF FC[PPStop(FC)].err = "eof" THEN 0 ELSE 1
PP(FC) == IF PPDetermined(FC) THEN [determined |-> TRUE, status |-> 0, items |-> PPItems(FC)]
          ELSE [determined |-> FALSE, status |-> 1, items |-> <<>>]

(* C02, end to end: when the command exits 0, its output is its input with each dump
   replaced by its rendering - putting the lines of each rendered dump back gives the input *)
Expand(items, FC) == FlattenSeq([j \in 1..Len(items) |->
                        IF items[j].k = "line" THEN <<items[j].i>> ELSE FC[items[j].i].cons])
PPConserves == LET FC == FinalCalls IN
  PPDetermined(FC) => /\ PPStop(FC) = Len(FC)                                 \* every call is reached
                      /\ Expand(PPItems(FC), FC) = [k \in 1..n |-> k]

(* The sink - standard output, or the -html page for the "render" items - may stop taking bytes from
   its f-th item on.  The command then reports the failed write: exit status 0 is only given when
   every item was delivered, wherever the dump stands (the end of the input included: F15, F16).
   The replay observes f = 1 (output, resp. page, on /dev/full).                                    *)
PPDelivered(FC, f) == LET it == PPItems(FC) IN SubSeq(it, 1, IF f - 1 < Len(it) THEN f - 1 ELSE Len(it))
PPStatusSink(FC, f) == IF f <= Len(PPItems(FC)) THEN 1 ELSE PPStatus(FC)
PPExitZeroMeansDelivered == LET FC == FinalCalls IN
  PPDetermined(FC) => \A f \in 1..(Len(PPItems(FC)) + 1) :
      PPStatusSink(FC, f) = 0 => PPDelivered(FC, f) = PPItems(FC)

=============================================================================
