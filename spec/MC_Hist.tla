------------------------------ MODULE MC_Hist ------------------------------
(***************************************************************************)
(* C14: call histories on one snapshot, and programs of concurrent workers.*)
(*                                                                         *)
(* Operations: aggregate at one of the four levels, render the aggregation *)
(* as HTML, render the snapshot as HTML, scan (parse) the dump again.      *)
(* In the specification an operation is a function of the snapshot VALUE   *)
(* (Canon); the snapshot is never written (UNCHANGED snap in every step),  *)
(* so every history leaves it intact, any operation gives the same answer  *)
(* after any history, and any interleaving of workers gives every worker   *)
(* the sequential answers.  What TLC contributes is the enumeration of     *)
(* histories / worker programs together with the answers; the replay       *)
(* checks the real code against them: deep equality of the snapshot after  *)
(* every step, equal buckets, and no report from the race detector.        *)
(* The snapshots are sequences over MC_Agg's merge universe, so that       *)
(* aggregation really merges (an in-place merge would be visible).         *)
(***************************************************************************)
EXTENDS MC_Agg

CONSTANTS MaxOps,      \* length of a sequential history
          MaxWorkers,  \* workers in a concurrent program
          MaxWOps      \* operations per worker

Ops == {"EF", "EL", "AP", "AV", "HA", "HS", "SC"}
LevelOf(op) == CASE op = "EF" -> "ExactFlags" [] op = "EL" -> "ExactLines" [] op = "AP" -> "AnyPointer"
                 [] op = "AV" -> "AnyValue" [] OTHER -> "AnyPointer"
Snaps == << <<1, 2, 6, 1>>, <<6, 7, 5, 8, 9>>, <<3, 4, 10, 1, 6, 7>> >>     \* indices into UMerge

VARIABLES snapv, hist, prog, kind
hvars == <<snapv, hist, prog, kind>>

HInit == /\ snapv \in 1..Len(Snaps) /\ hist = <<>> /\ prog = <<>> /\ kind \in {"seq", "conc"}
         /\ phase = "gen" /\ snap = <<>> /\ lvl = "ExactFlags" /\ rev = "asc"
         /\ bmap = {} /\ i = 1 /\ order = <<>> /\ result = <<>>

(* a sequential history grows by one operation; the snapshot value is untouched *)
Step == /\ kind = "seq" /\ Len(hist) < MaxOps
        /\ \E op \in Ops : hist' = Append(hist, op)
        /\ UNCHANGED <<snapv, prog, kind, vars>>
(* a concurrent program: add a worker, or give the last worker one more operation *)
AddWorker == /\ kind = "conc" /\ Len(prog) < MaxWorkers
             /\ \E op \in Ops : prog' = Append(prog, <<op>>)
             /\ UNCHANGED <<snapv, hist, kind, vars>>
AddOp == /\ kind = "conc" /\ prog # <<>> /\ Len(prog[Len(prog)]) < MaxWOps
         /\ \E op \in Ops : prog' = [prog EXCEPT ![Len(prog)] = Append(@, op)]
         /\ UNCHANGED <<snapv, hist, kind, vars>>
HNext == Step \/ AddWorker \/ AddOp
HSpec == HInit /\ [][HNext]_<<hvars, vars>>

SigsOf(sv) == [p \in 1..Len(Snaps[sv]) |-> UMerge[Snaps[sv][p]]]
IdsOf(sv) == [p \in 1..Len(Snaps[sv]) |-> p]
(* the answer of an aggregating operation: bucket id lists in order *)
Answer(sv, op) == LET R == Canon(SigsOf(sv), IdsOf(sv), LevelOf(op)) IN [k \in 1..Len(R) |-> R[k].ids]
Answers(sv) == [op \in {"EF", "EL", "AP", "AV"} |-> Answer(sv, op)]

(* the snapshot value is never written *)
Immutable == [][snapv' = snapv]_<<hvars, vars>>

ASSUME PrintT("UNIV " \o ToJson([U |-> UMerge, snaps |-> Snaps, answers |-> [sv \in 1..Len(Snaps) |-> Answers(sv)]]))
HEmit == (hist # <<>> \/ prog # <<>>) =>
   PrintT("CASE " \o ToJson([kind |-> kind, snap |-> snapv, hist |-> hist, prog |-> prog]))
=============================================================================
