------------------------------ MODULE Scanner ------------------------------
(***************************************************************************)
(* The line-kind state machine of stack/context.go:scan().                 *)
(*                                                                         *)
(* A line is a record                                                      *)
(*    lead : Seq({"s","t"})  the literal leading white space (s = space,   *)
(*                           t = tab), exactly as bytes                    *)
(*    body : one of Bodies   the lexical class of what follows the lead    *)
(*    eol  : "lf" | "crlf" | "none"   ("none" only for the last line of a  *)
(*                           stream that does not end with a newline)      *)
(*    p    : [id, state, tok] payload, opaque to the automaton except for  *)
(*                           goroutine ids                                 *)
(*                                                                         *)
(* The scanner state is [st, P, gs, gi]: the state of context.go's enum,   *)
(* the indentation prefix established by the first goroutine header, the   *)
(* goroutines built so far and the index of the goroutine a race           *)
(* "created at" section is being attached to.                              *)
(*                                                                         *)
(* Step(s, l) is one call of scan(): the next state, whether the line was  *)
(* consumed (withheld from the pass-through writer) and the error class.   *)
(* It is the INTENDED machine: the one on which the listed properties      *)
(* hold.  The only places where the real code is known to depart from the  *)
(* intended behaviour are in the ScanSnapshot loop, not in scan(); they    *)
(* are named deviations of Pipeline.tla.                                   *)
(***************************************************************************)
EXTENDS Naturals, Sequences, FiniteSets, SequencesExt, TLC

Bodies == {"hdr","unavail","func","funcbad","file","filebad","created","createdbad",
           "elided","blank","rsep","rwarn","rop","ropbad","rprev","rprevbad","rgo","junk"}

States == {"looking","done","betweenRoutine","gotRoutineHeader","gotFunc","gotCreated",
           "gotFileFunc","gotFileCreated","gotUnavail",
           "gotRaceHeader1","gotRaceHeader2","gotRaceOperationHeader","gotRaceOperationFunc",
           "gotRaceOperationFile","betweenRaceOperations","gotRaceGoroutineHeader",
           "gotRaceGoroutineFunc","gotRaceGoroutineFile","betweenRaceGoroutines"}

(* States in which the lines withheld so far are only tentatively part of a
   report: the separator and the warning line of a race report.             *)
TentativeStates == {"gotRaceHeader1","gotRaceHeader2"}

NoTok   == [id |-> 0, state |-> "", tok |-> ""]
UnavTok == [id |-> 0, state |-> "", tok |-> "unavail"]

(* a call: the function token, the white space that was left in front of the
   function text when it was parsed (always empty for well-formed dumps) and
   the file token                                                            *)
NewCall(l, res) == [fn |-> l.p, lead |-> res, file |-> NoTok, flead |-> <<>>]

NoG == [id |-> 0, first |-> FALSE, hdr |-> NoTok, calls |-> <<>>, elided |-> FALSE,
        created |-> <<>>, race |-> FALSE]

InitS == [st |-> "looking", P |-> <<>>, gs |-> <<>>, gi |-> 0]

SetLast(q, v) == [q EXCEPT ![Len(q)] = v]

(* result of one scan() call *)
R(s, consumed, err) == [s |-> s, consumed |-> consumed, err |-> err]

AllSpaces(q) == \A i \in 1..Len(q) : q[i] = "s"

(* Lexical recognition: whether the text that remains once the established
   prefix has been stripped (residual white space `res` + body) is accepted
   as kind k.  These mirror the anchoring of the regexps in context.go:
     reRoutineHeader  any residual white space is accepted in front
     reUnavail        exactly one tab, or one or more spaces and nothing else
     reFile           starts with a tab or a space; what follows the first
                      tab / the run of spaces is part of the path, so any
                      non-empty residual is accepted
     reCreated, elided marker, race lines: anchored at column 0
     reFunc           accepts anything that ends in a parenthesised list;
                      residual white space becomes part of the symbol
                      (goroutine mode) or is trimmed (race mode)             *)
Hdr(l)            == l.body = "hdr"
Unavail(l,res)    == l.body = "unavail" /\ res # <<>> /\ (res = <<"t">> \/ AllSpaces(res))
FuncOK(l)         == l.body = "func"
FuncBad(l)        == l.body = "funcbad"
FileOK(l,res)     == l.body = "file" /\ res # <<>>
FileBad(l,res)    == l.body = "filebad" /\ res # <<>>
Created(l,res)    == l.body = "created" /\ res = <<>>
CreatedBad(l,res) == l.body = "createdbad" /\ res = <<>>
Elided(l,res)     == l.body = "elided" /\ res = <<>>
Blank(l,res)      == l.body = "blank" /\ res = <<>>
RSep(l,res)       == l.body = "rsep" /\ res = <<>>
RWarn(l,res)      == l.body = "rwarn" /\ res = <<>>
ROp(l,res)        == l.body = "rop" /\ res = <<>>
ROpBad(l,res)     == l.body = "ropbad" /\ res = <<>>
RPrev(l,res)      == l.body = "rprev" /\ res = <<>>
RPrevBad(l,res)   == l.body = "rprevbad" /\ res = <<>>
RGo(l,res)        == l.body = "rgo" /\ res = <<>>

AddCall(g, l, res) == [g EXCEPT !.calls = Append(@, NewCall(l, res))]
(* reFile consumes one tab, or the whole run of leading spaces; whatever white
   space is left over becomes part of the path                              *)
RECURSIVE DropSpaces(_)
DropSpaces(q) == IF q # <<>> /\ Head(q) = "s" THEN DropSpaces(Tail(q)) ELSE q
FileRest(res) == IF Head(res) = "t" THEN Tail(res) ELSE DropSpaces(res)
WithFile(c, l, res) == [c EXCEPT !.file = l.p, !.flead = FileRest(res)]
SetFile(g, l, res) == [g EXCEPT !.calls = SetLast(@, WithFile(Last(@), l, res))]

(* index of the first goroutine with this id (race "created at" lookup) *)
IndexOfId(gs, id) == IF \E i \in 1..Len(gs): gs[i].id = id
                     THEN CHOOSE i \in 1..Len(gs): gs[i].id = id /\ \A j \in 1..(i-1): gs[j].id # id
                     ELSE 0

NewGoroutine(l, isFirst) == [NoG EXCEPT !.id = l.p.id, !.hdr = l.p, !.first = isFirst]
NewRaceOp(l, isFirst)    == [NoG EXCEPT !.id = l.p.id, !.hdr = l.p, !.first = isFirst, !.race = TRUE]

RECURSIVE Step(_,_)
Step(s, l) ==
  IF l.eol = "none" /\ s.st \in {"looking","done"} THEN R(s, FALSE, "")        \* context.go:487-491
  ELSE
  LET blankline == l.body = "blank" /\ l.lead = <<>>
      badindent == ~blankline /\ s.P # <<>> /\ ~IsPrefix(s.P, l.lead)
  IN
  IF badindent THEN R([s EXCEPT !.st = "done", !.P = <<>>], FALSE, "indent")    \* :496-504
  ELSE
  LET res == IF blankline \/ s.P = <<>> THEN l.lead ELSE SubSeq(l.lead, Len(s.P)+1, Len(l.lead))
      cur == IF s.gs = <<>> THEN NoG ELSE Last(s.gs)
      setcur(g) == [s EXCEPT !.gs = SetLast(@, g)]
  IN
  CASE s.st = "done" -> R(s, FALSE, "")
    [] s.st \in {"looking","betweenRoutine"} ->
         IF Hdr(l)
         THEN R([s EXCEPT !.gs = Append(@, NewGoroutine(l, s.gs = <<>>)),
                          !.st = "gotRoutineHeader",
                          !.P = IF s.st = "looking" THEN res ELSE s.P], TRUE, "")
         ELSE IF RSep(l,res) /\ s.st = "looking"
         THEN R([s EXCEPT !.st = "gotRaceHeader1"], TRUE, "")
         ELSE IF s.st # "looking" THEN R([s EXCEPT !.st = "done"], FALSE, "")
         ELSE R(s, FALSE, "")
    [] s.st = "gotRoutineHeader" ->
         IF Unavail(l,res) THEN R([setcur([cur EXCEPT !.calls = <<[fn |-> UnavTok, lead |-> <<>>, file |-> NoTok, flead |-> <<>>]>>])
                                       EXCEPT !.st = "gotUnavail"], TRUE, "")
         ELSE IF FuncOK(l)  THEN R([setcur(AddCall(cur,l,res)) EXCEPT !.st = "gotFunc"], TRUE, "")
         ELSE IF FuncBad(l) THEN R([setcur(AddCall(cur,l,res)) EXCEPT !.st = "gotFunc"], FALSE, "parse")
         ELSE R(s, FALSE, "parse")
    [] s.st = "gotFunc" ->
         IF FileOK(l,res) THEN R([setcur(SetFile(cur,l,res)) EXCEPT !.st = "gotFileFunc"], TRUE, "")
         ELSE R(s, FALSE, "parse")
    [] s.st = "gotCreated" ->
         IF FileOK(l,res) THEN R([setcur([cur EXCEPT !.created = SetLast(@, WithFile(Last(@), l, res))])
                                      EXCEPT !.st = "gotFileCreated"], TRUE, "")
         ELSE R(s, FALSE, "parse")
    [] s.st = "gotFileFunc" ->
         IF Created(l,res) THEN R([setcur([cur EXCEPT !.created = <<NewCall(l, <<>>)>>]) EXCEPT !.st = "gotCreated"], TRUE, "")
         ELSE IF CreatedBad(l,res) THEN R(s, FALSE, "parse")
         ELSE IF Elided(l,res) THEN R(setcur([cur EXCEPT !.elided = TRUE]), TRUE, "")
         ELSE IF FuncOK(l)  THEN R([setcur(AddCall(cur,l,res)) EXCEPT !.st = "gotFunc"], TRUE, "")
         ELSE IF FuncBad(l) THEN R([setcur(AddCall(cur,l,res)) EXCEPT !.st = "gotFunc"], FALSE, "parse")
         ELSE IF Blank(l,res) THEN R([s EXCEPT !.st = "betweenRoutine"], TRUE, "")
         ELSE R([s EXCEPT !.st = "done"], FALSE, "")
    [] s.st = "gotFileCreated" ->
         IF Blank(l,res) THEN R([s EXCEPT !.st = "betweenRoutine"], TRUE, "")
         ELSE R([s EXCEPT !.st = "done"], FALSE, "")
    [] s.st = "gotUnavail" ->
         IF Blank(l,res) THEN R([s EXCEPT !.st = "betweenRoutine"], TRUE, "")
         ELSE IF Created(l,res) THEN R([setcur([cur EXCEPT !.created = <<NewCall(l, <<>>)>>]) EXCEPT !.st = "gotCreated"], TRUE, "")
         ELSE R(s, FALSE, "parse")
    [] s.st = "gotRaceHeader1" ->
         IF RWarn(l,res) THEN R([s EXCEPT !.st = "gotRaceHeader2"], TRUE, "")
         ELSE Step([s EXCEPT !.st = "looking", !.P = <<>>], l)               \* re-dispatch (fix f497ef4)
    [] s.st = "gotRaceHeader2" ->
         IF ROp(l,res)
         THEN IF s.gs # <<>> THEN R(s, FALSE, "PANIC")                         \* unreachable: see NoPanic
              ELSE R([s EXCEPT !.gs = <<NewRaceOp(l, TRUE)>>,
                               !.gi = 1, !.st = "gotRaceOperationHeader"], TRUE, "")
         ELSE R(s, FALSE, "parse")
    [] s.st = "gotRaceOperationHeader" ->
         IF FuncOK(l)  THEN R([setcur(AddCall(cur,l,<<>>)) EXCEPT !.st = "gotRaceOperationFunc"], TRUE, "")
         ELSE IF FuncBad(l) THEN R([setcur(AddCall(cur,l,<<>>)) EXCEPT !.st = "gotRaceOperationFunc"], FALSE, "parse")
         ELSE R(s, FALSE, "parse")
    [] s.st = "gotRaceOperationFunc" ->
         IF FileOK(l,res) THEN R([setcur(SetFile(cur,l,res)) EXCEPT !.st = "gotRaceOperationFile"], TRUE, "")
         ELSE R(s, FALSE, "parse")
    [] s.st = "gotRaceOperationFile" ->
         IF Blank(l,res) THEN R([s EXCEPT !.st = "betweenRaceOperations"], TRUE, "")
         ELSE IF FuncOK(l)  THEN R([setcur(AddCall(cur,l,<<>>)) EXCEPT !.st = "gotRaceOperationFunc"], TRUE, "")
         ELSE IF FuncBad(l) THEN R([setcur(AddCall(cur,l,<<>>)) EXCEPT !.st = "gotRaceOperationFunc"], FALSE, "parse")
         ELSE R(s, FALSE, "parse")
    [] s.st \in {"betweenRaceOperations","betweenRaceGoroutines"} ->
         IF s.st = "betweenRaceOperations" /\ RPrev(l,res)
         THEN R([s EXCEPT !.gs = Append(@, NewRaceOp(l, FALSE)),
                          !.gi = Len(s.gs)+1, !.st = "gotRaceOperationHeader"], TRUE, "")
         ELSE IF s.st = "betweenRaceOperations" /\ RPrevBad(l,res) THEN R(s, FALSE, "parse")
         ELSE IF RGo(l,res)
         THEN LET i == IndexOfId(s.gs, l.p.id) IN
              IF i = 0 THEN R(s, FALSE, "parse")
              ELSE R([s EXCEPT !.gi = i, !.st = "gotRaceGoroutineHeader",
                               !.gs[i].hdr = [@ EXCEPT !.state = l.p.state]], TRUE, "")
         ELSE R(s, FALSE, "parse")
    [] s.st = "gotRaceGoroutineFunc" ->
         IF FileOK(l,res)
         THEN R([s EXCEPT !.gs[s.gi].created = SetLast(@, WithFile(Last(@), l, res)),
                          !.st = "gotRaceGoroutineFile"], TRUE, "")
         ELSE R(s, FALSE, "parse")
    [] s.st \in {"gotRaceGoroutineFile","gotRaceGoroutineHeader"} ->
         IF s.st = "gotRaceGoroutineFile" /\ Blank(l,res) THEN R([s EXCEPT !.st = "betweenRaceGoroutines"], TRUE, "")
         ELSE IF s.st = "gotRaceGoroutineFile" /\ RSep(l,res) THEN R([s EXCEPT !.st = "done"], TRUE, "")
         ELSE IF FuncOK(l) \/ FuncBad(l)
         THEN R([s EXCEPT !.gs[s.gi].created = Append(@, NewCall(l, <<>>)),
                          !.st = "gotRaceGoroutineFunc"], FuncOK(l), IF FuncOK(l) THEN "" ELSE "parse")
         ELSE R(s, FALSE, "parse")

(***************************************************************************)
(* The documented grammar (context.go's state enum comments), as a         *)
(* relation: from-state -> set of to-states that consumed lines may lead   *)
(* to.  `done' is reachable from every dump state.  Checked against Step   *)
(* by MC_Pipe (invariant GrammarOK).                                       *)
(***************************************************************************)
Documented ==
  [ looking                |-> {"gotRoutineHeader","gotRaceHeader1","looking"},
    betweenRoutine         |-> {"gotRoutineHeader","done"},
    gotRoutineHeader       |-> {"gotUnavail","gotFunc"},
    gotFunc                |-> {"gotFileFunc"},
    gotCreated             |-> {"gotFileCreated"},
    gotFileFunc            |-> {"gotFunc","gotCreated","betweenRoutine","done","gotFileFunc"},
    gotFileCreated         |-> {"betweenRoutine","done"},
    gotUnavail             |-> {"betweenRoutine","gotCreated"},
    gotRaceHeader1         |-> {"gotRaceHeader2","looking","gotRoutineHeader","gotRaceHeader1","done"},
    gotRaceHeader2         |-> {"gotRaceOperationHeader","done"},
    gotRaceOperationHeader |-> {"gotRaceOperationFunc","done"},
    gotRaceOperationFunc   |-> {"gotRaceOperationFile","done"},
    gotRaceOperationFile   |-> {"betweenRaceOperations","gotRaceOperationFunc","done"},
    betweenRaceOperations  |-> {"gotRaceOperationHeader","gotRaceGoroutineHeader","done"},
    gotRaceGoroutineHeader |-> {"gotRaceGoroutineFunc","done"},
    gotRaceGoroutineFunc   |-> {"gotRaceGoroutineFile","done"},
    gotRaceGoroutineFile   |-> {"betweenRaceGoroutines","gotRaceGoroutineFunc","done"},
    betweenRaceGoroutines  |-> {"gotRaceGoroutineHeader","done"},
    done                   |-> {"done"} ]
=============================================================================
