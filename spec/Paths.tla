------------------------------- MODULE Paths -------------------------------
(***************************************************************************)
(* Path rebasing: findRoots (stack/context.go:1040-1114) and               *)
(* updateLocations (stack/stack.go:409-476) over an abstract file system.  *)
(*                                                                         *)
(* A path is a sequence of atoms.  Atom ranks follow the byte order of the *)
(* concrete names the replay uses (getFiles sorts strings), and no atom is *)
(* a prefix of another, so sequence-lexicographic order is string order.   *)
(* Everything local lives under the atom T (the replay's scratch           *)
(* directory); remote roots are renamed to Q, R, R/S.                      *)
(*                                                                         *)
(* The module has two parts: the transcription of the algorithm (model =   *)
(* code, bound by replay on real directories) and a ground truth derived   *)
(* from the layout that generated the dump (what C18 demands).             *)
(***************************************************************************)
EXTENDS Naturals, Sequences, FiniteSets, SequencesExt, TLC

Rank == [H |-> 0, Q |-> 1, R |-> 2, S |-> 3, T |-> 4, G |-> 5, P |-> 6, V |-> 7, W |-> 8, W2 |-> 9, fa |-> 10, fb |-> 11, gomod |-> 12,
         k |-> 13, mod |-> 14, pkg |-> 15, src |-> 16, u |-> 17, x |-> 18, y |-> 19, z |-> 20, testdir |-> 21, testmain |-> 22]
RECURSIVE PathLess(_,_)
PathLess(p, q) == IF p = <<>> THEN q # <<>>
                  ELSE IF q = <<>> THEN FALSE
                  ELSE IF Rank[Head(p)] # Rank[Head(q)] THEN Rank[Head(p)] < Rank[Head(q)]
                  ELSE PathLess(Tail(p), Tail(q))
RECURSIVE SortPaths(_)
SortPaths(Sx) == IF Sx = {} THEN <<>>
                 ELSE LET m == CHOOSE p \in Sx : \A q \in Sx \ {p} : PathLess(p, q) IN <<m>> \o SortPaths(Sx \ {m})

HasPfx(f, p) == Len(f) > Len(p) /\ SubSeq(f, 1, Len(p)) = p
Drop(f, n) == SubSeq(f, n + 1, Len(f))
EndsWith(r, tl) == Len(r) >= Len(tl) /\ SubSeq(r, Len(r) - Len(tl) + 1, Len(r)) = tl
Chop(r, n) == SubSeq(r, 1, Len(r) - n)

---------------------------------------------------------------------------
(* The local machine. *)
LocalGOROOT  == <<"T", "G">>
LocalGOPATH1 == <<"T", "P">>
LocalGOPATH2 == <<"T", "V">>
LocalGOPATHs == <<LocalGOPATH1, LocalGOPATH2>>
ModRoot == <<"T", "W">>
GoModFile == ModRoot \o <<"gomod">>
ModRoot2 == <<"T", "W2">>       \* a sibling module whose directory name has the first one's as a string prefix
GoModFile2 == ModRoot2 \o <<"gomod">>

(* findRoots / updateLocations as written, parameterised by the file system
   fs (a set of paths that are files) and the frame files of the dump.       *)
IsFile(fs, p) == p \in fs
(* isRootedIn: the longest existing suffix wins; returns the leading parts *)
RootedIn(fs, root, parts) ==
  LET I == {i \in 1..(Len(parts) - 1) : IsFile(fs, root \o Drop(parts, i))} IN
  IF I = {} THEN <<>> ELSE SubSeq(parts, 1, CHOOSE i \in I : \A j \in I : i <= j)
(* isGoModule: walk up from the directory, stop at a cached prefix *)
RECURSIVE ModWalk(_,_,_)
ModWalk(fs, dir, c) == IF dir = <<>> \/ dir \in c THEN [root |-> <<>>, cache |-> c]
                       ELSE IF IsFile(fs, dir \o <<"gomod">>) THEN [root |-> dir, cache |-> c \cup {dir}]
                       ELSE ModWalk(fs, Chop(dir, 1), c \cup {dir})

SRC == <<"src">>
PKGMOD == <<"pkg", "mod">>

(* one iteration of findRoots' loop on file f; st = [goroot, gopaths, gomods, cache] *)
RootStep(fs, st, f) ==
  LET skip == \/ (st.goroot # <<>> /\ HasPfx(f, st.goroot \o SRC))
              \/ \E g \in st.gopaths : HasPfx(f, g.remote \o SRC) \/ HasPfx(f, g.remote \o PKGMOD)
              \/ \E m \in st.gomods : HasPfx(f, m.root)
      r1 == IF st.goroot = <<>> THEN RootedIn(fs, LocalGOROOT \o SRC, f) ELSE <<>>
      TryGP(l) == LET a == RootedIn(fs, l \o SRC, f)
                      b == RootedIn(fs, l \o PKGMOD, f) IN
                  IF EndsWith(a, SRC) THEN Chop(a, 1)
                  ELSE IF EndsWith(b, PKGMOD) THEN Chop(b, 2)
                  ELSE <<>>
      g1 == TryGP(LocalGOPATH1)
      g2 == TryGP(LocalGOPATH2)
      mw == ModWalk(fs, Chop(f, 1), st.cache)
  IN
  IF skip THEN st
  ELSE IF EndsWith(r1, SRC) THEN [st EXCEPT !.goroot = Chop(r1, 1)]
  ELSE IF g1 # <<>> THEN [st EXCEPT !.gopaths = {x \in @ : x.remote # g1} \cup {[remote |-> g1, local |-> LocalGOPATH1]}]
  ELSE IF g2 # <<>> THEN [st EXCEPT !.gopaths = {x \in @ : x.remote # g2} \cup {[remote |-> g2, local |-> LocalGOPATH2]}]
  ELSE IF Len(f) > 1 /\ mw.root # <<>> THEN [st EXCEPT !.gomods = @ \cup {[root |-> mw.root, pkg |-> IF mw.root = ModRoot2 THEN "M2" ELSE "M"]}, !.cache = mw.cache]
  ELSE IF IsFile(fs, f) THEN [st EXCEPT !.gomods = {x \in @ : x.root # Chop(f, 1)} \cup {[root |-> Chop(f, 1), pkg |-> "main"]},
                                        !.cache = IF Len(f) > 1 THEN mw.cache ELSE @]
  ELSE [st EXCEPT !.cache = IF Len(f) > 1 THEN mw.cache ELSE @]

RECURSIVE RootsFold(_,_,_)
RootsFold(fs, st, todo) == IF todo = <<>> THEN st ELSE RootsFold(fs, RootStep(fs, st, Head(todo)), Tail(todo))
FindRoots(fs, files) ==
  RootsFold(fs, [goroot |-> <<>>, gopaths |-> {}, gomods |-> {}, cache |-> {}], SortPaths(files))

(* updateLocations: GOROOT, then GOPATHs longest remote prefix first, then modules longest first *)
DirOf(rel) == Chop(rel, 1)
Loc(fs, st, f) ==
  LET gps == {g \in st.gopaths : HasPfx(f, g.remote \o SRC) \/ HasPfx(f, g.remote \o PKGMOD)}
      gms == {m \in st.gomods : HasPfx(f, m.root)}
  IN
  IF st.goroot # <<>> /\ HasPfx(f, st.goroot \o SRC)
  THEN LET rel == Drop(f, Len(st.goroot) + 1) IN
       [class |-> "Stdlib", local |-> LocalGOROOT \o SRC \o rel, rel |-> rel, imp |-> DirOf(rel)]
  ELSE IF gps # {}
  THEN LET g == CHOOSE x \in gps : \A yy \in gps : Len(x.remote) >= Len(yy.remote) IN
       IF HasPfx(f, g.remote \o SRC)
       THEN LET rel == Drop(f, Len(g.remote) + 1) IN
            [class |-> "GOPATH", local |-> g.local \o SRC \o rel, rel |-> rel, imp |-> DirOf(rel)]
       ELSE LET rel == Drop(f, Len(g.remote) + 2) IN
            [class |-> "GoPkg", local |-> g.local \o PKGMOD \o rel, rel |-> rel, imp |-> DirOf(rel)]
  ELSE IF gms # {}
  THEN LET m == CHOOSE x \in gms : \A yy \in gms : Len(x.root) >= Len(yy.root)
           rel == Drop(f, Len(m.root)) IN
       [class |-> "GoMod", local |-> f, rel |-> rel, imp |-> <<m.pkg>> \o DirOf(rel)]
  ELSE [class |-> "Unknown", local |-> <<>>, rel |-> <<>>, imp |-> <<>>]

(* Call.init: a frame in _test/_testmain.go is standard library whatever the roots say *)
IsTestMain(f) == Len(f) >= 2 /\ f[Len(f) - 1] = "testdir" /\ f[Len(f)] = "testmain"
LocOf(fs, st, f) == LET l == Loc(fs, st, f) IN IF IsTestMain(f) THEN [l EXCEPT !.class = "Stdlib"] ELSE l
=============================================================================
