------------------------------ MODULE MC_Print ------------------------------
(***************************************************************************)
(* C01 / C08 (design level): printer model o scanner = identity.           *)
(* Dumps and race reports are generated in stages (so that TLC's workers   *)
(* share the work), printed with Printer.tla, scanned with Pipeline.tla's  *)
(* RunAll, and the resulting calls are compared with the expected          *)
(* snapshot.  Every finished case is emitted for replay on the real code.  *)
(***************************************************************************)
EXTENDS Printer, Json

CONSTANTS Mode,     \* "dump" | "race"
          MaxG,     \* goroutines per dump / operations per report
          MaxFr,    \* frames per stack
          Big       \* TRUE: few, long stacks (the runtime prints at most 100 frames: 50 + marker + 50) instead of all short ones

VARIABLES phase, dump, v, tail, rep
vars == <<phase, dump, v, tail, rep, ps>>   \* ps (Pipeline's variable) is not used: streams are folded with RunAll

NoV == [ind |-> <<>>, find |-> <<"t">>, blankind |-> FALSE]
NoRep == [nops |-> 0, pre |-> 0]

Init == /\ phase = "gen" /\ dump = <<>> /\ v = NoV /\ tail = "eof" /\ rep = NoRep /\ ps = PS0

---------------------------------------------------------------------------
Shapes == IF Big
          THEN {g \in [nfr : {0, 1, 50, 99, 100, 150}, elide : {0, 1, 50}, created : BOOLEAN] : g.elide <= g.nfr}
          ELSE {g \in [nfr : 0..MaxFr, elide : 0..MaxFr, created : BOOLEAN] : g.elide <= g.nfr}
Inds == {<<>>, <<"s","s">>, <<"t">>, <<"s","s","s","s">>}
FileInds == {<<"t">>, <<"s","s","s","s">>}
Variants == IF Big THEN {[ind |-> <<>>, find |-> <<"t">>, blankind |-> FALSE], [ind |-> <<"s","s">>, find |-> <<"s","s","s","s">>, blankind |-> TRUE]}
            ELSE {x \in [ind : Inds, find : FileInds, blankind : BOOLEAN] : x.blankind => x.ind # <<>>}
Tails == IF Big THEN {"eof", "blankjunk"} ELSE {"eof", "blankeof", "blankjunk", "junk", "junkind"}

AddG == /\ Mode = "dump" /\ phase = "gen" /\ Len(dump) < MaxG
        /\ \E g \in Shapes : dump' = Append(dump, g)
        /\ UNCHANGED <<phase, v, tail, rep>>
FinishDump == /\ Mode = "dump" /\ phase = "gen" /\ dump # <<>>
              /\ \E x \in Variants : \E t \in Tails :
                   /\ (t = "junkind" => x.ind # <<>>)
                   /\ v' = x /\ tail' = t
              /\ phase' = "done" /\ UNCHANGED <<dump, rep>>

---------------------------------------------------------------------------
IdPool == <<7, 8, 9, 7>>     \* the fourth operation reuses the id of the first
Perms(S) == {q \in [1..Cardinality(S) -> S] : \A i, j \in 1..Cardinality(S) : i # j => q[i] # q[j]}
Regular(nops) == UNION {Perms(S) : S \in (SUBSET (1..nops)) \ {{}}}
(* ... and the same with one foreign section (entry 0) at any position, or alone *)
InsForeign(q, k) == SubSeq(q, 1, k - 1) \o <<0>> \o SubSeq(q, k, Len(q))
SecChoices(nops) == Regular(nops) \cup UNION {{InsForeign(q, k) : k \in 1..(Len(q) + 1)} : q \in Regular(nops) \cup {<<>>}}

GenOps == /\ Mode = "race" /\ phase = "gen" /\ rep.nops = 0
          /\ \E nops \in 2..MaxG : \E nfr \in [1..nops -> 1..MaxFr] : \E kinds \in [1..nops -> {"r","w"}] :
               rep' = [nops |-> nops, nfr |-> nfr, ids |-> [i \in 1..nops |-> IdPool[i]], kinds |-> kinds,
                       secs |-> <<>>, cfr |-> <<>>, cst |-> <<>>, pre |-> 0]
          /\ UNCHANGED <<phase, dump, v, tail>>
GenSecs == /\ Mode = "race" /\ phase = "gen" /\ rep.nops > 0
           /\ \E secs \in SecChoices(rep.nops) :
              \E cfr \in [1..Len(secs) -> 1..MaxFr] : \E cst \in [1..Len(secs) -> {"running","finished"}] :
              \E t \in {"eof", "junk", "blankjunk"} :
                \* pre = 1: a stray separator line (a banner, a leftover footer) directly in front of the report
                /\ \E p \in (IF \E j \in 1..Len(secs) : secs[j] = 0 THEN {0} ELSE {0, 1}) :
                     rep' = [rep EXCEPT !.secs = secs, !.cfr = cfr, !.cst = cst, !.pre = p]
                /\ tail' = t
           /\ phase' = "done" /\ UNCHANGED <<dump, v>>

Next == (AddG \/ FinishDump \/ GenOps \/ GenSecs) /\ UNCHANGED ps
Spec == Init /\ [][Next]_vars

---------------------------------------------------------------------------
Pre == IF Mode = "race" THEN rep.pre ELSE 0
Lines == IF Mode = "dump" THEN PrintDump(dump, v) \o TailLines(v, tail)
         ELSE (IF rep.pre = 1 THEN <<Lin("rsep", <<>>, Tk(""))>> ELSE <<>>) \o PrintReport(rep) \o TailLines(NoV, tail)
Foreign == Mode = "race" /\ HasForeign(rep)
Expected == IF Mode = "dump" THEN ExpectDump(dump)
            ELSE IF Foreign THEN ExpectReport(UpToForeign(rep)) ELSE ExpectReport(rep)
NDump == IF Mode = "dump" THEN Len(PrintDump(dump, v)) ELSE Len(PrintReport(rep))

(* The identity.  The first call returns exactly the expected snapshot, has
   consumed exactly the printed lines (plus at most one blank line directly
   after a goroutine dump), forwards nothing, and its only admissible error is
   the end of the stream - or the unspecified class `indent' when an indented
   dump is followed by an unindented line (DESIGN.md, O1).                   *)
Fidelity ==
  phase = "done" =>
    LET L  == Lines
        FC == FinalCallsOf(RunAll(L))
        c  == FC[1]
        nd == NDump
        blankAfter == tail \in {"blankeof", "blankjunk"} /\ Mode = "dump"
        lastUnav == Mode = "dump" /\ dump[Len(dump)].nfr = 0 /\ ~dump[Len(dump)].created
    IN /\ c.snap = Expected
       \* a stray separator in front is released (forwarded) when the report's own separator arrives
       /\ c.fwd = [i \in 1..Pre |-> i] /\ c.k1 = [i \in 1..Pre |-> i]
       /\ Foreign => c.err = "parse"          \* C08: an error, never a misattribution (Expected holds no frame of it)
       /\ ~Foreign => c.cons = [i \in 1..(nd + (IF blankAfter THEN 1 ELSE 0)) |-> Pre + i]
       /\ ~Foreign => c.err = (IF Mode = "race" THEN ""
                   ELSE IF tail \in {"eof", "blankeof"} THEN "eof"
                   ELSE IF v.ind # <<>> /\ tail \in {"junk", "blankjunk"} THEN "indent"
                   ELSE IF lastUnav /\ tail \in {"junk", "junkind"} THEN "parse"
                   ELSE "")
       /\ ~Foreign => \A i \in 2..Len(FC) : FC[i].snap = <<>> /\ FC[i].cons = <<>>

CaseJson == LET L == Lines IN
  ToJson([mode |-> Mode, lines |-> L, calls |-> FinalCallsOf(RunAll(L)), ndump |-> NDump, pre |-> Pre, pp |-> PP(FinalCallsOf(RunAll(L)))])
Emit == phase = "done" => PrintT("CASE " \o CaseJson)
=============================================================================
