SPECIFICATION Spec
CONSTANTS
  Mode = "race"
  MaxG = 3
  MaxFr = 2
  Big = FALSE
INVARIANTS
  Fidelity
  Emit
CHECK_DEADLOCK FALSE
