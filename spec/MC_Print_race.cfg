SPECIFICATION Spec
CONSTANTS
  Mode = "race"
  MaxG = 3
  MaxFr = 2
INVARIANTS
  Fidelity
  Emit
CHECK_DEADLOCK FALSE
