SPECIFICATION Spec
CONSTANTS
  Mode = "race"
  MaxG = 3
  MaxFr = 1
  Big = FALSE
INVARIANTS
  Fidelity
  Emit
CHECK_DEADLOCK FALSE
