----------------------------- MODULE MC_Augment -----------------------------
(* Every parameter list of at most MaxP parameters over the supported kinds. *)
EXTENDS Augment, Json
CONSTANTS MaxP
VARIABLES params, phase
vars == <<params, phase>>
Init == params = <<>> /\ phase = "gen"
Add == phase = "gen" /\ Len(params) < MaxP /\ \E k \in Kinds : params' = Append(params, k) /\ UNCHANGED phase
Stop == phase = "gen" /\ params # <<>> /\ phase' = "done" /\ UNCHANGED params
Next == Add \/ Stop
Spec == Init /\ [][Next]_vars
AttributedOK == phase = "done" => Attributed(params)
Emit == phase = "done" => PrintT("CASE " \o ToJson([params |-> params, words |-> Len(Flat(params))]))
=============================================================================
