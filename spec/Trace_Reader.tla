---------------------------- MODULE Trace_Reader ----------------------------
(***************************************************************************)
(* Trace validation of the real reader against Reader.tla with the real    *)
(* constants (B = 16384 bytes, Retry = 100).  The harness records, for     *)
(* pass-through-only streams under random delivery schedules, every Read   *)
(* call the code issued on the scripted source (bytes returned, error) and *)
(* how many bytes the pass-through writer had received at that moment.     *)
(* The steps between two reads (Search, Slide, readLine's accumulation)    *)
(* are not observable: TLC infers them (silent steps, deterministic).      *)
(* Checked at every step: Reader's invariants, and that the bytes written  *)
(* when a Read is issued are exactly the lines returned so far (C11).      *)
(* Several recorded executions are concatenated; `begin' resets.           *)
(***************************************************************************)
EXTENDS Reader, Json, Integers

CONSTANT Strict   \* TRUE: the code must also offer exactly the free space of a B-byte window at every Read
                  \* (binds the cursor arithmetic of Reader.tla to the code); FALSE: B is only an upper
                  \* bound, so that any buffer strategy that keeps the property is accepted

Trace == ndJsonDeserialize("reader_trace.ndjson")

VARIABLE l
tvars == <<rvars, l>>

Ev == Trace[l]
SetOf(q) == {q[i] : i \in 1..Len(q)}
Returned == IF lines = <<>> THEN 0 ELSE lines[Len(lines)][2]

TInit == /\ l = 1 /\ N = 0 /\ NL = {} /\ fin = "eof" /\ withData = FALSE /\ RInit0

TBegin == /\ l <= Len(Trace) /\ Ev.ev = "begin"
          /\ (l = 1 \/ pc = "end")
          /\ N' = Ev.N /\ NL' = SetOf(Ev.NL) /\ fin' = Ev.fin /\ withData' \in BOOLEAN
          /\ pos' = 0 /\ off' = 0 /\ r' = 0 /\ w' = 0 /\ rerr' = "" /\ pc' = "search"
          /\ sr' = 0 /\ acc' = 0 /\ zeros' = 0 /\ lines' = <<>> /\ reads' = <<>>
          /\ l' = l + 1

TSilent == /\ l > 1 /\ pc \in {"search", "fill"} /\ (Search \/ Slide) /\ UNCHANGED l

TRead == /\ l <= Len(Trace) /\ Ev.ev = "read" /\ pc = "read"
         /\ (Strict => Ev.n <= Ev.offered /\ Ev.offered = B - w)   \* the code offers the free space of its window
         /\ ReadN(Ev.n)
         /\ reads'[Len(reads')][2] = (IF Ev.err = "" THEN "" ELSE fin)
         /\ Ev.written = Returned                            \* C11: nothing returned is withheld
         /\ l' = l + 1

TEnd == /\ l <= Len(Trace) /\ Ev.ev = "end" /\ pc = "end"
        /\ Ev.written = Returned
        /\ UNCHANGED rvars /\ l' = l + 1

TNext == TBegin \/ TSilent \/ TRead \/ TEnd
TSpec == TInit /\ [][TNext]_tvars

(* high-water mark of consumed events (needs -workers 1) *)
ASSUME TLCSet(1, 0)
HighWater == TLCSet(1, IF TLCGet(1) < l THEN l ELSE TLCGet(1))
Accepted == TLCGet(1) = Len(Trace) + 1
=============================================================================
