SPECIFICATION TSpec
CONSTANTS
  NP = 64
INVARIANTS
  RecOK
POSTCONDITION Accepted
CHECK_DEADLOCK FALSE
