------------------------------- MODULE MC_Web -------------------------------
EXTENDS Web, Json
Requests == [method : Methods, maxmem : MaxmemVals, augment : AugmentVals, sim : SimVals]
ASSUME PrintT("UNIV " \o ToJson([requests |-> {[r |-> r, status |-> Status(r), augments |-> Augments(r), twins |-> LockTwinsBuckets(r)] : r \in Requests}]))
(* the loop ends: at most one attempt per doubling, plus one *)
RECURSIVE Log2Up(_)
Log2Up(x) == IF x <= 1 THEN 0 ELSE 1 + Log2Up((x + 1) \div 2)
Terminates == iter <= Log2Up((Clamp(m) + Start - 1) \div Start) + 1
=============================================================================
