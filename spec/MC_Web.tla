------------------------------- MODULE MC_Web -------------------------------
EXTENDS Web, Json
Requests == [method : Methods, maxmem : MaxmemVals, augment : AugmentVals, sim : SimVals]
ASSUME PrintT("UNIV " \o ToJson([requests |-> {[r |-> r, status |-> Status(r), augments |-> Augments(r)] : r \in Requests}]))
=============================================================================
