------------------------------ MODULE Console ------------------------------
(***************************************************************************)
(* Console rendering (internal/ui.go, internal/main.go:66-104): the block  *)
(* structure of pp's output.                                               *)
(*                                                                         *)
(* A dump class is a sequence of bucket descriptors taken from a catalogue *)
(* (for a race report: goroutine descriptors).  A descriptor says how many *)
(* goroutines it stands for, whether it shows a sleep range, a lock, a     *)
(* creator, frames elided, and for each frame the names it prints; names   *)
(* are indices into width tables (bytes and runes of the package           *)
(* directory and of the file:line text in each path format).               *)
(* The output is a sequence of blocks: one header and one row per frame    *)
(* (plus an elision row).  Column positions are the same for the whole     *)
(* output and derive from the maxima over ALL buckets, shown or not        *)
(* (calcBucketsLengths).  Lengths are taken in bytes (Go's len) while      *)
(* fmt pads in runes: a row's own text occupies its rune width, padded up  *)
(* to the byte maximum - so columns stay aligned for non-ASCII names too.  *)
(***************************************************************************)
EXTENDS Naturals, Sequences, FiniteSets, SequencesExt, TLC

CONSTANTS PkgBytes, PkgRunes,      \* per package-name index
          SrcBytes, SrcRunes,      \* per file index, per path format: [f \in Files |-> [base |-> n, full |-> n]]
          Catalogue                \* sequence of descriptors

MaxOf(S) == IF S = {} THEN 0 ELSE CHOOSE x \in S : \A y \in S : x >= y

(* cfg = [pf, colour, mode, P, Q] with P the set of catalogue indices whose header the expression
   matches (mode "both": P for -f, Q for -m) *)
Rows(b) == Catalogue[b].rows
AllRows(bs) == UNION {{Rows(bs[i])[j] : j \in 1..Len(Rows(bs[i]))} : i \in 1..Len(bs)}
PkgLen(bs) == MaxOf({PkgBytes[r.pkg] : r \in AllRows(bs)} \cup {0})
(* pp is run without rebasing here, so no frame has a relative path and -rel-path ("rel") falls
   back, frame by frame, to what the full format prints: the widths are the full format's.      *)
WidthKey(pf) == IF pf = "rel" THEN "full" ELSE pf
SrcLen(bs, pf) == MaxOf({SrcBytes[r.src][WidthKey(pf)] : r \in AllRows(bs)} \cup {0})

Admitted(b, cfg) == CASE cfg.mode = "none"   -> TRUE
                      [] cfg.mode = "filter" -> b \notin cfg.P
                      [] cfg.mode = "match"  -> b \in cfg.P
                      [] cfg.mode = "both"   -> b \notin cfg.P /\ b \in cfg.Q    \* -f and -m together: both apply
Shown(bs, cfg) == SelectSeq(bs, LAMBDA b : Admitted(b, cfg))

(* column at which the file:line text and the function text start, in runes,
   0-based, on every frame row of the whole output *)
FileCol(bs) == 4 + PkgLen(bs) + 1
FuncCol(bs, pf) == FileCol(bs) + SrcLen(bs, pf) + 1

Block(b, bs, cfg) == [bucket |-> b, nrows |-> Len(Rows(b)) + (IF Catalogue[b].elided THEN 1 ELSE 0)]
Out(bs, cfg) == [i \in 1..Len(Shown(bs, cfg)) |-> Block(Shown(bs, cfg)[i], bs, cfg)]

---------------------------------------------------------------------------
(* Properties of the rendering (C16) *)
IsSubSeqOf(s, t) == \E f \in [1..Len(s) -> 1..Len(t)] :
                      /\ \A i \in 1..Len(s) : t[f[i]] = s[i]
                      /\ \A i \in 1..(Len(s) - 1) : f[i] < f[i+1]
Complete(bs) == Shown(bs, [pf |-> "base", colour |-> FALSE, mode |-> "none", P |-> {}, Q |-> {}]) = bs
Split(bs, P) ==
  LET f == Shown(bs, [pf |-> "base", colour |-> FALSE, mode |-> "filter", P |-> P, Q |-> {}])
      m == Shown(bs, [pf |-> "base", colour |-> FALSE, mode |-> "match", P |-> P, Q |-> {}]) IN
  /\ Len(f) + Len(m) = Len(bs)
  /\ {f[i] : i \in 1..Len(f)} \cap {m[i] : i \in 1..Len(m)} = {}
  /\ IsSubSeqOf(f, bs) /\ IsSubSeqOf(m, bs)
(* -f F together with -m M shows exactly the blocks that -f F alone and -m M alone both show *)
BothIsMeet(bs, P, Q) ==
  LET f == Shown(bs, [pf |-> "base", colour |-> FALSE, mode |-> "filter", P |-> P, Q |-> {}])
      m == Shown(bs, [pf |-> "base", colour |-> FALSE, mode |-> "match", P |-> Q, Q |-> {}])
      x == Shown(bs, [pf |-> "base", colour |-> FALSE, mode |-> "both", P |-> P, Q |-> Q]) IN
  /\ {x[i] : i \in 1..Len(x)} = {f[i] : i \in 1..Len(f)} \cap {m[i] : i \in 1..Len(m)}
  /\ IsSubSeqOf(x, bs)
(* a row's own text fits into its column: the padding is never negative *)
Fits(bs, pf) == \A i \in 1..Len(bs) : \A j \in 1..Len(Rows(bs[i])) :
   /\ PkgRunes[Rows(bs[i])[j].pkg] <= PkgLen(bs)
   /\ SrcRunes[Rows(bs[i])[j].src][WidthKey(pf)] <= SrcLen(bs, pf)
=============================================================================
