SPECIFICATION Spec
INVARIANTS
  LinksSafe
  LinkPresent
  Emit
CHECK_DEADLOCK FALSE
