---------------------------- MODULE Trace_Names ----------------------------
(* Recorded namings of large random dumps (many distinct pointer values, more
   than any sort's small-input fast path): one record per dump with the names
   the real code assigned, in walk order; each record is checked against the
   declarative labelling of Names.tla.                                      *)
EXTENDS Names, Json

Trace == ndJsonDeserialize("names_trace.ndjson")
VARIABLE l
TInit == l = 1
TNext == l <= Len(Trace) /\ l' = l + 1
TSpec == TInit /\ [][TNext]_l
Rec == Trace[l]
RecOK == l <= Len(Trace) => NamesOf(Rec.d) = Rec.names
Accepted == TLCGet("stats").diameter - 1 = Len(Trace)
=============================================================================
