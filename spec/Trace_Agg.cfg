SPECIFICATION TSpec
CONSTANTS
  MaxG = 1
  Univ = "one"
  TokRank <- MCTokRank
INVARIANTS
  RecPartition
  RecClasses
POSTCONDITION Accepted
CHECK_DEADLOCK FALSE
