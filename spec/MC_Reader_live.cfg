SPECIFICATION FairSpec
CONSTANTS
  B = 4
  Retry = 2
  MaxN = 4
PROPERTIES
  Terminates
CHECK_DEADLOCK FALSE
