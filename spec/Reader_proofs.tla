--------------------------- MODULE Reader_proofs ---------------------------
(***************************************************************************)
(* Unbounded safety of Reader.tla, by TLAPS: for EVERY buffer size B >= 1, *)
(* retry bound Retry >= 1, stream length N, newline placement NL and       *)
(* delivery schedule, the reader's cursors stay inside the window, fill()  *)
(* never panics ("tried to fill full buffer"), and the source is never     *)
(* asked for more while a complete line sits in the buffer (C11's reader   *)
(* half).  TLC checks the same invariants exhaustively for B = 4 only      *)
(* (MC_Reader); this module removes the bound.                             *)
(***************************************************************************)
EXTENDS Reader, NaturalsInduction, TLAPS

ASSUME Params == B \in Nat /\ B >= 1 /\ Retry \in Nat /\ Retry >= 1

PInit == /\ N \in Nat /\ NL \subseteq Nat /\ (\A p \in NL : p < N)
         /\ fin \in {"eof", "err"} /\ withData \in BOOLEAN
         /\ RInit0
PSpec == PInit /\ [][RNext]_rvars

IndInv ==
  /\ N \in Nat /\ NL \subseteq Nat
  /\ pos \in Nat /\ off \in Nat /\ r \in Nat /\ w \in Nat /\ sr \in Nat /\ acc \in Nat /\ zeros \in Nat
  /\ pc \in {"search", "fill", "read", "end"}
  /\ r <= w /\ w <= B /\ pos <= N /\ off + w = pos
  /\ sr <= w - r
  /\ NlIn(off + r, off + r + sr) = {}
  /\ pc = "fill" => w - r < B /\ sr = w - r
  /\ pc = "read" => r = 0 /\ w < B /\ sr = w
  /\ zeros < Retry

LEMMA MinIn == ASSUME NEW S, S \subseteq Nat, S # {}
               PROVE  MinOf(S) \in S /\ \A y \in S : MinOf(S) <= y
<1> DEFINE P(n) == n \in S
<1>1 PICK n \in Nat : P(n) OBVIOUS
<1>2 PICK m \in Nat : P(m) /\ \A k \in 0 .. m-1 : ~ P(k)
  <2> HIDE DEF P
  <2> QED BY <1>1, SmallestNatural, Isa
<1>3 m \in S /\ \A y \in S : m <= y
  <2>1 m \in S BY <1>2
  <2>2 ASSUME NEW y \in S PROVE m <= y
    <3>1 y \in Nat OBVIOUS
    <3>2 CASE y < m
      <4>1 y \in 0 .. m-1 BY <3>1, <3>2
      <4> QED BY <4>1, <1>2
    <3> QED BY <3>1, <3>2
  <2> QED BY <2>1, <2>2
<1> QED BY <1>3 DEF MinOf

LEMMA CandNat == ASSUME NL \subseteq Nat, NEW a, NEW b PROVE NlIn(a, b) \subseteq Nat
  BY DEF NlIn

THEOREM InitInv == PInit => IndInv
  BY Params DEF PInit, RInit0, IndInv, NlIn

THEOREM StepInv == IndInv /\ [RNext]_rvars => IndInv'
<1> SUFFICES ASSUME IndInv, [RNext]_rvars PROVE IndInv' OBVIOUS
<1> USE Params
<1>1 CASE Search
  <2> DEFINE cand == NlIn(off + r + sr, off + w)
  <2>1 CASE cand # {}
    <3> DEFINE p == MinOf(cand)
    <3>1 cand \subseteq Nat BY CandNat DEF IndInv
    <3>2 p \in cand BY <2>1, <3>1, MinIn
    <3>3 p \in Nat /\ p >= off + r + sr /\ p < off + w BY <3>2, <3>1 DEF NlIn
    <3>4 /\ r' = p + 1 - off /\ sr' = 0 /\ acc' = 0 /\ pc' = "search"
         /\ UNCHANGED <<N, NL, fin, withData, pos, off, w, rerr, zeros, reads>>
      BY <1>1, <2>1 DEF Search, Return
    <3> QED BY <3>3, <3>4 DEF IndInv, NlIn
  <2>2 CASE cand = {} /\ rerr # ""
    <3>1 /\ r' = w /\ sr' = 0 /\ acc' = 0 /\ pc' \in {"search", "end"}
         /\ UNCHANGED <<N, NL, fin, withData, pos, off, w, zeros, reads>>
      BY <1>1, <2>2 DEF Search, Return
    <3> QED BY <3>1 DEF IndInv, NlIn
  <2>3 CASE cand = {} /\ rerr = "" /\ w - r = B
    <3>1 /\ acc' = acc + B /\ r' = w /\ sr' = 0 /\ pc' = "search"
         /\ UNCHANGED <<N, NL, fin, withData, pos, off, w, rerr, zeros, lines, reads>>
      BY <1>1, <2>3 DEF Search
    <3> QED BY <3>1 DEF IndInv, NlIn
  <2>4 CASE cand = {} /\ rerr = "" /\ w - r # B
    <3>1 /\ sr' = w - r /\ pc' = "fill"
         /\ UNCHANGED <<N, NL, fin, withData, pos, off, r, w, rerr, acc, zeros, lines, reads>>
      BY <1>1, <2>4 DEF Search
    <3>2 NlIn(off + r, off + w) = {}
      <4>1 NlIn(off + r, off + r + sr) = {} BY DEF IndInv
      <4>2 NlIn(off + r + sr, off + w) = {} BY <2>4
      <4> QED BY <4>1, <4>2 DEF NlIn, IndInv
    <3> QED BY <3>1, <3>2, <2>4 DEF IndInv, NlIn
  <2> QED BY <2>1, <2>2, <2>3, <2>4
<1>2 CASE Slide
  <2>1 /\ off' = off + r /\ w' = w - r /\ r' = 0 /\ zeros' = 0 /\ pc = "fill"
       /\ pc' = IF w - r >= B THEN "PANIC" ELSE "read"
       /\ UNCHANGED <<N, NL, fin, withData, pos, rerr, sr, acc, lines, reads>>
    BY <1>2 DEF Slide
  <2>2 w - r < B /\ sr = w - r BY <2>1 DEF IndInv
  <2>3 pc' = "read" BY <2>1, <2>2 DEF IndInv
  <2> QED BY <2>1, <2>2, <2>3 DEF IndInv, NlIn
<1>3 CASE Read
  <2>1 PICK n \in 0 .. B : ReadN(n) BY <1>3 DEF Read
  <2>2 pc = "read" /\ n <= B - w /\ n <= N - pos /\ w' = w + n /\ pos' = pos + n
       /\ pc' \in {"search", "read"} /\ zeros' \in Nat /\ zeros' < Retry
       /\ (pc' = "read" => n = 0)
       /\ UNCHANGED <<N, NL, fin, withData, off, r, sr, acc, lines>>
    BY <2>1 DEF ReadN, IndInv
  <2> QED BY <2>2 DEF IndInv, NlIn
<1>4 CASE UNCHANGED rvars
  BY <1>4 DEF IndInv, NlIn, rvars
<1> QED BY <1>1, <1>2, <1>3, <1>4 DEF RNext

THEOREM Safety == PSpec => []IndInv
<1>1 PInit => IndInv BY InitInv
<1>2 IndInv /\ [RNext]_rvars => IndInv' BY StepInv
<1> QED BY <1>1, <1>2, PTL DEF PSpec

(* what the invariant gives: the properties TLC checks for B = 4, for every B *)
THEOREM Consequences == IndInv => TypeOK /\ NoPanic /\ NoReadWhileLine
  BY DEF IndInv, TypeOK, NoPanic, NoReadWhileLine, NlIn

---------------------------------------------------------------------------
(* The returned lines (C09's reader half): whatever the schedule and the   *)
(* buffer size, the k-th line handed to the scanner is the k-th            *)
(* newline-delimited piece of the stream, and the final error comes once,  *)
(* after all the data.                                                     *)
LineT == Nat \X Nat \X STRING
DoneAt == IF lines = <<>> THEN 0 ELSE lines[Len(lines)][2]

LInv ==
  /\ IndInv
  /\ lines \in Seq(LineT)
  /\ fin \in {"eof", "err"}
  /\ rerr \in {"", "noprogress", fin}
  /\ rerr = fin => pos = N
  /\ acc <= off + r
  /\ pc # "end" => DoneAt = off + r - acc
  /\ NlIn(off + r - acc, off + r) = {}
  /\ \A k \in 1..Len(lines) : lines[k][3] # "" => (pc = "end" /\ k = Len(lines))
  /\ LinesRight
  /\ Done

THEOREM LInitInv == PInit => LInv
<1> SUFFICES ASSUME PInit PROVE LInv OBVIOUS
<1>1 IndInv BY InitInv
<1>2 lines = <<>> /\ acc = 0 /\ off = 0 /\ r = 0 /\ rerr = "" /\ pc = "search" BY DEF PInit, RInit0
<1> QED BY <1>1, <1>2, Params DEF PInit, LInv, LinesRight, Done, DoneAt, NlIn, LineT

THEOREM LStepInv == LInv /\ [RNext]_rvars => LInv'
<1> SUFFICES ASSUME LInv, [RNext]_rvars PROVE LInv' OBVIOUS
<1> USE Params
<1>0 IndInv' BY StepInv DEF LInv
<1>a IndInv BY DEF LInv
<1>1 CASE Search
  <2> DEFINE cand == NlIn(off + r + sr, off + w)
             from == off + r - acc
  <2>0 pc = "search" /\ from \in Nat /\ DoneAt = from BY <1>1 DEF Search, LInv, IndInv
  <2>1 CASE cand # {}
    <3> DEFINE p == MinOf(cand)
    <3>1 cand \subseteq Nat BY CandNat DEF IndInv, LInv
    <3>2 p \in cand /\ \A y \in cand : p <= y BY <2>1, <3>1, MinIn
    <3>3 p \in Nat /\ p >= off + r + sr /\ p < off + w /\ p \in NL BY <3>2, <3>1 DEF NlIn
    <3>4 /\ r' = p + 1 - off /\ sr' = 0 /\ acc' = 0 /\ pc' = "search"
         /\ lines' = Append(lines, <<from, p + 1, "">>)
         /\ UNCHANGED <<N, NL, fin, withData, pos, off, w, rerr, zeros, reads>>
      BY <1>1, <2>1 DEF Search, Return
    <3>5 NlIn(from, p) = {}
      <4>1 NlIn(from, off + r) = {} BY DEF LInv
      <4>2 NlIn(off + r, off + r + sr) = {} BY DEF LInv, IndInv
      <4>3 \A q \in NL : q >= off + r + sr /\ q < off + w => p <= q BY <3>2 DEF NlIn
      <4> QED BY <4>1, <4>2, <4>3, <3>3, <2>0 DEF NlIn, LInv, IndInv
    <3>6 <<from, p + 1, "">> \in LineT BY <2>0, <3>3 DEF LineT
    <3>7 lines' \in Seq(LineT) /\ Len(lines') = Len(lines) + 1
         /\ lines'[Len(lines')] = <<from, p + 1, "">>
         /\ \A k \in 1..Len(lines) : lines'[k] = lines[k]
      BY <3>4, <3>6 DEF LInv
    <3>8 \A k \in 1..Len(lines) : lines[k][3] = "" BY <2>0 DEF LInv
    <3>9 LinesRight'
      <4> SUFFICES ASSUME NEW k \in 1..Len(lines')
                   PROVE /\ lines'[k][1] = (IF k = 1 THEN 0 ELSE lines'[k-1][2])
                         /\ lines'[k][3] = "" => (lines'[k][2] - 1) \in NL' /\ {q \in NL' : q >= lines'[k][1] /\ q < lines'[k][2] - 1} = {}
                         /\ lines'[k][3] # "" => {q \in NL' : q >= lines'[k][1] /\ q < lines'[k][2]} = {} /\ k = Len(lines')
        BY DEF LinesRight, NlIn
      <4>1 CASE k <= Len(lines)
        BY <4>1, <3>7, <3>4, <3>8 DEF LInv, LinesRight, NlIn
      <4>2 CASE k = Len(lines) + 1
        <5>1 lines'[k] = <<from, p + 1, "">> BY <4>2, <3>7
        <5>2 lines'[k][1] = (IF k = 1 THEN 0 ELSE lines'[k-1][2])
          BY <5>1, <4>2, <3>7, <2>0 DEF DoneAt, LInv
        <5>3 NL' = NL BY <3>4
        <5> QED BY <5>1, <5>2, <5>3, <3>5, <3>3 DEF NlIn
      <4>3 Len(lines) \in Nat /\ Len(lines') = Len(lines) + 1 BY <3>7 DEF LInv
      <4> QED BY <4>1, <4>2, <4>3
    <3>10 (DoneAt = off + r - acc)' BY <3>7, <3>4, <3>3 DEF DoneAt, LInv, IndInv
    <3>11 Done' BY <3>4 DEF Done
    <3>12 \A k \in 1..Len(lines') : lines'[k][3] # "" => (pc' = "end" /\ k = Len(lines'))
      <4>1 Len(lines) \in Nat BY DEF LInv
      <4> QED BY <4>1, <3>7, <3>8
    <3>13 (NlIn(off + r - acc, off + r) = {})' BY <3>4, <3>3 DEF NlIn, LInv, IndInv
    <3>14 (acc <= off + r)' BY <3>4, <3>3 DEF LInv, IndInv
    <3>15 (fin \in {"eof", "err"} /\ rerr \in {"", "noprogress", fin} /\ (rerr = fin => pos = N))' BY <3>4 DEF LInv
    <3> QED BY <1>0, <3>7, <3>9, <3>10, <3>11, <3>12, <3>13, <3>14, <3>15 DEF LInv
  <2>2 CASE cand = {} /\ rerr # ""
    <3>1 /\ r' = w /\ sr' = 0 /\ acc' = 0 /\ pc' = "end" /\ rerr' = ""
         /\ lines' = Append(lines, <<from, off + w, rerr>>)
         /\ UNCHANGED <<N, NL, fin, withData, pos, off, w, zeros, reads>>
      BY <1>1, <2>2 DEF Search, Return
    <3>2 NlIn(from, off + w) = {}
      <4>1 NlIn(from, off + r) = {} BY DEF LInv
      <4>2 NlIn(off + r, off + r + sr) = {} BY DEF LInv, IndInv
      <4>3 NlIn(off + r + sr, off + w) = {} BY <2>2
      <4> QED BY <4>1, <4>2, <4>3, <2>0 DEF NlIn, LInv, IndInv
    <3>3 rerr \in STRING /\ off + w \in Nat BY DEF LInv, IndInv
    <3>6 <<from, off + w, rerr>> \in LineT BY <2>0, <3>3 DEF LineT
    <3>7 lines' \in Seq(LineT) /\ Len(lines') = Len(lines) + 1
         /\ lines'[Len(lines')] = <<from, off + w, rerr>>
         /\ \A k \in 1..Len(lines) : lines'[k] = lines[k]
      BY <3>1, <3>6 DEF LInv
    <3>8 \A k \in 1..Len(lines) : lines[k][3] = "" BY <2>0 DEF LInv
    <3>9 LinesRight'
      <4> SUFFICES ASSUME NEW k \in 1..Len(lines')
                   PROVE /\ lines'[k][1] = (IF k = 1 THEN 0 ELSE lines'[k-1][2])
                         /\ lines'[k][3] = "" => (lines'[k][2] - 1) \in NL' /\ {q \in NL' : q >= lines'[k][1] /\ q < lines'[k][2] - 1} = {}
                         /\ lines'[k][3] # "" => {q \in NL' : q >= lines'[k][1] /\ q < lines'[k][2]} = {} /\ k = Len(lines')
        BY DEF LinesRight, NlIn
      <4>1 CASE k <= Len(lines)
        BY <4>1, <3>7, <3>1, <3>8 DEF LInv, LinesRight, NlIn
      <4>2 CASE k = Len(lines) + 1
        <5>1 lines'[k] = <<from, off + w, rerr>> BY <4>2, <3>7
        <5>2 lines'[k][1] = (IF k = 1 THEN 0 ELSE lines'[k-1][2])
          BY <5>1, <4>2, <3>7, <2>0 DEF DoneAt, LInv
        <5>3 NL' = NL BY <3>1
        <5> QED BY <5>1, <5>2, <5>3, <3>2, <2>2, <4>2, <3>7 DEF NlIn
      <4>3 Len(lines) \in Nat /\ Len(lines') = Len(lines) + 1 BY <3>7 DEF LInv
      <4> QED BY <4>1, <4>2, <4>3
    <3>10 Done'
      <4>1 lines'[Len(lines')][3] = rerr /\ lines'[Len(lines')][2] = off + w BY <3>7
      <4>2 rerr = fin => off + w = N BY DEF LInv, IndInv
      <4> QED BY <4>1, <4>2, <2>2, <3>1 DEF Done, LInv
    <3>12 \A k \in 1..Len(lines') : lines'[k][3] # "" => (pc' = "end" /\ k = Len(lines'))
      <4>1 Len(lines) \in Nat BY DEF LInv
      <4> QED BY <4>1, <3>7, <3>8, <3>1
    <3>13 (NlIn(off + r - acc, off + r) = {})' BY <3>1 DEF NlIn, LInv, IndInv
    <3>14 (acc <= off + r)' BY <3>1 DEF LInv, IndInv
    <3>15 (fin \in {"eof", "err"} /\ rerr \in {"", "noprogress", fin} /\ (rerr = fin => pos = N))' BY <3>1 DEF LInv
    <3>16 (pc # "end" => DoneAt = off + r - acc)' BY <3>1
    <3> QED BY <1>0, <3>7, <3>9, <3>10, <3>12, <3>13, <3>14, <3>15, <3>16 DEF LInv
  <2>3 CASE cand = {} /\ rerr = "" /\ w - r = B
    <3>1 /\ acc' = acc + B /\ r' = w /\ sr' = 0 /\ pc' = "search"
         /\ UNCHANGED <<N, NL, fin, withData, pos, off, w, rerr, zeros, lines, reads>>
      BY <1>1, <2>3 DEF Search
    <3>2 NlIn(from, off + w) = {}
      <4>1 NlIn(from, off + r) = {} BY DEF LInv
      <4>2 NlIn(off + r, off + r + sr) = {} BY DEF LInv, IndInv
      <4>3 NlIn(off + r + sr, off + w) = {} BY <2>3
      <4> QED BY <4>1, <4>2, <4>3, <2>0 DEF NlIn, LInv, IndInv
    <3>3 off + r' - acc' = from BY <3>1, <2>3 DEF LInv, IndInv
    <3> QED BY <1>0, <3>1, <3>2, <3>3, <2>0 DEF LInv, LinesRight, Done, DoneAt, NlIn, IndInv
  <2>4 CASE cand = {} /\ rerr = "" /\ w - r # B
    <3>1 /\ sr' = w - r /\ pc' = "fill"
         /\ UNCHANGED <<N, NL, fin, withData, pos, off, r, w, rerr, acc, zeros, lines, reads>>
      BY <1>1, <2>4 DEF Search
    <3> QED BY <1>0, <3>1, <2>0 DEF LInv, LinesRight, Done, DoneAt, NlIn
  <2> QED BY <2>1, <2>2, <2>3, <2>4
<1>2 CASE Slide
  <2>1 /\ off' = off + r /\ w' = w - r /\ r' = 0 /\ zeros' = 0 /\ pc = "fill" /\ pc' # "end"
       /\ UNCHANGED <<N, NL, fin, withData, pos, rerr, sr, acc, lines, reads>>
    BY <1>2, <1>0 DEF Slide, IndInv
  <2> QED BY <1>0, <2>1 DEF LInv, LinesRight, Done, DoneAt, NlIn, IndInv
<1>3 CASE Read
  <2>1 PICK n \in 0 .. B : ReadN(n) BY <1>3 DEF Read
  <2>2 /\ pc = "read" /\ pc' # "end" /\ pos' = pos + n
       /\ rerr' \in {rerr, "noprogress", fin} /\ (rerr' = fin /\ rerr # fin => pos' = N)
       /\ UNCHANGED <<N, NL, fin, withData, off, r, sr, acc, lines>>
    BY <2>1 DEF ReadN, LInv
  <2> QED BY <1>0, <2>2 DEF LInv, LinesRight, Done, DoneAt, NlIn, IndInv
<1>4 CASE UNCHANGED rvars
  BY <1>4, <1>0 DEF LInv, LinesRight, Done, DoneAt, NlIn, rvars
<1> QED BY <1>1, <1>2, <1>3, <1>4 DEF RNext

(* C11's reader half for every B: when the reader blocks in Read, every complete
   line delivered so far has been returned to the scanner *)
THEOREM LConsequences == LInv => ReturnedAll
<1> SUFFICES ASSUME LInv, pc = "read" PROVE NlIn(DoneAt, pos) = {} BY DEF ReturnedAll, DoneAt
<1>1 r = 0 /\ sr = w /\ off + w = pos /\ DoneAt = off + r - acc BY DEF LInv, IndInv
<1>2 NlIn(off + r - acc, off + r) = {} /\ NlIn(off + r, off + r + sr) = {} BY DEF LInv, IndInv
<1> QED BY <1>1, <1>2 DEF NlIn, LInv, IndInv

THEOREM LSafety == PSpec => [](LinesRight /\ Done /\ ReturnedAll)
<1>1 PInit => LInv BY LInitInv
<1>2 LInv /\ [RNext]_rvars => LInv' BY LStepInv
<1>3 LInv => LinesRight /\ Done /\ ReturnedAll BY LConsequences DEF LInv
<1> QED BY <1>1, <1>2, <1>3, PTL DEF PSpec

=============================================================================
