------------------------------ MODULE Printer ------------------------------
(***************************************************************************)
(* The two producers whose output the scanner must parse back:             *)
(*   - runtime/traceback.go's goroutine dump printer (PrintDump)           *)
(*   - tsan's Go race report printer, tsan_report.cpp, Go branch           *)
(*     (PrintReport)                                                       *)
(* as generators from an abstract dump / report value to a sequence of     *)
(* Scanner.tla lines.  Payloads are opaque tokens, unique per position, so *)
(* that an attribution mistake (frame attached to the wrong goroutine,     *)
(* creation stack attached to the wrong operation) changes the snapshot.   *)
(* The replay side draws the concrete text of every token from its lexical *)
(* tables (symbol shapes, argument trees, file-line shapes, header         *)
(* variants).                                                              *)
(***************************************************************************)
EXTENDS Pipeline

Tk(t) == [id |-> 0, state |-> "", tok |-> t]
Lin(bd, lead, p) == [lead |-> lead, body |-> bd, eol |-> "lf", p |-> p]
N2S(i) == ToString(i)

---------------------------------------------------------------------------
(* Goroutine dump.                                                         *)
(* A goroutine shape: nfr frames (0 = "stack unavailable"), elide = j > 0  *)
(* puts the elided-frames marker after frame j, created says whether a     *)
(* "created by" pair follows.  A variant: ind = uniform indentation of     *)
(* every line, find = indentation of file lines (tab, or spaces after a    *)
(* copy-paste), blankind = whether the empty separator lines carry the     *)
(* indentation too.                                                        *)

FnTok(i, j)   == Tk("F" \o N2S(i) \o "_" \o N2S(j))
FileTok(i, j) == Tk("P" \o N2S(i) \o "_" \o N2S(j))
CrTok(i)      == Tk("C" \o N2S(i))
CrFileTok(i)  == Tk("Q" \o N2S(i))
HdrTok(i)     == [id |-> i, state |-> "S" \o N2S(i), tok |-> "H" \o N2S(i)]

PrintG(dump, v, i) ==
  LET g == dump[i]
      hdr == <<Lin("hdr", v.ind, HdrTok(i))>>
      fr(j) == <<Lin("func", v.ind, FnTok(i,j)), Lin("file", v.ind \o v.find, FileTok(i,j))>>
             \o (IF g.elide = j THEN <<Lin("elided", v.ind, Tk(""))>> ELSE <<>>)
      frames == IF g.nfr = 0 THEN <<Lin("unavail", v.ind \o <<"t">>, Tk(""))>>
                ELSE FlattenSeq([j \in 1..g.nfr |-> fr(j)])
      cr == IF g.created THEN <<Lin("created", v.ind, CrTok(i)), Lin("file", v.ind \o v.find, CrFileTok(i))>>
            ELSE <<>>
      sep == IF i > 1 THEN <<Lin("blank", IF v.blankind THEN v.ind ELSE <<>>, Tk(""))>> ELSE <<>>
  IN sep \o hdr \o frames \o cr

PrintDump(dump, v) == FlattenSeq([i \in 1..Len(dump) |-> PrintG(dump, v, i)])

(* what follows the dump in the stream *)
TailLines(v, kind) ==
  CASE kind = "eof"       -> <<>>
    [] kind = "blankeof"  -> <<Lin("blank", <<>>, Tk(""))>>
    [] kind = "blankjunk" -> <<Lin("blank", <<>>, Tk("")), Lin("junk", <<>>, Tk(""))>>
    [] kind = "junk"      -> <<Lin("junk", <<>>, Tk(""))>>
    [] kind = "junkind"   -> <<Lin("junk", v.ind, Tk(""))>>

(* the snapshot the dump must parse to *)
ExpectG(dump, i) ==
  LET g == dump[i] IN
  [id |-> i, first |-> (i = 1), state |-> HdrTok(i).state, tok |-> HdrTok(i).tok, race |-> FALSE,
   elided |-> g.elide > 0,
   calls |-> IF g.nfr = 0 THEN <<[fn |-> "unavail", lead |-> <<>>, file |-> "", flead |-> <<>>]>>
             ELSE [j \in 1..g.nfr |-> [fn |-> FnTok(i,j).tok, lead |-> <<>>, file |-> FileTok(i,j).tok, flead |-> <<>>]],
   created |-> IF g.created THEN <<[fn |-> CrTok(i).tok, lead |-> <<>>, file |-> CrFileTok(i).tok, flead |-> <<>>]>> ELSE <<>>]
ExpectDump(dump) == [i \in 1..Len(dump) |-> ExpectG(dump, i)]

---------------------------------------------------------------------------
(* Race report.  rep = [nops, nfr, ids, kinds, secs, cfr, cst]:            *)
(*   nops operations (first "Read|Write at", then "Previous read|write"),  *)
(*   nfr[i] frames of operation i, ids[i] its goroutine id (ids may        *)
(*   repeat), kinds[i] in {"r","w"}; secs = the operations (by index) that *)
(*   get a "Goroutine N (running|finished) created at:" section, in        *)
(*   printed order; cfr[j] frames and cst[j] state of section j.  A section *)
(*   entry 0 stands for a FOREIGN section: it names goroutine ForeignId,    *)
(*   which took part in no operation.                                       *)
S2 == <<"s","s">>
S6 == <<"s","s","s","s","s","s">>

RFrames(tag, i, nf) ==
  FlattenSeq([j \in 1..nf |-> <<Lin("func", S2, Tk(tag \o N2S(i) \o "_" \o N2S(j))),
                                Lin("file", S6, Tk(tag \o "P" \o N2S(i) \o "_" \o N2S(j)))>>])
ROpLine(rep, i) ==
  Lin(IF i = 1 THEN "rop" ELSE "rprev", <<>>, [id |-> rep.ids[i], state |-> "", tok |-> rep.kinds[i]])
ROps(rep) == FlattenSeq([i \in 1..rep.nops |->
               <<ROpLine(rep, i)>> \o RFrames("O", i, rep.nfr[i]) \o <<Lin("blank", <<>>, Tk(""))>>])
ForeignId == 99
SecId(rep, j) == IF rep.secs[j] = 0 THEN ForeignId ELSE rep.ids[rep.secs[j]]
RSecs(rep) == FlattenSeq([j \in 1..Len(rep.secs) |->
               <<Lin("rgo", <<>>, [id |-> SecId(rep, j), state |-> rep.cst[j], tok |-> ""])>>
               \o RFrames("K", j, rep.cfr[j])
               \o (IF j < Len(rep.secs) THEN <<Lin("blank", <<>>, Tk(""))>> ELSE <<>>)])
PrintReport(rep) ==
  <<Lin("rsep", <<>>, Tk("")), Lin("rwarn", <<>>, Tk(""))>> \o ROps(rep) \o RSecs(rep) \o <<Lin("rsep", <<>>, Tk(""))>>

(* the creation section attached to operation i: the first section whose id
   is the id of the FIRST operation with that id, and only for that first
   operation (attribution is by goroutine id)                               *)
FirstOpWithId(rep, id) == CHOOSE i \in 1..rep.nops : rep.ids[i] = id /\ \A k \in 1..(i-1) : rep.ids[k] # id
SecsFor(rep, i) == {j \in 1..Len(rep.secs) : rep.secs[j] # 0 /\ FirstOpWithId(rep, rep.ids[rep.secs[j]]) = i}
RToks(tag, i, nf) == [j \in 1..nf |-> [fn |-> tag \o N2S(i) \o "_" \o N2S(j), lead |-> <<>>,
                                        file |-> tag \o "P" \o N2S(i) \o "_" \o N2S(j), flead |-> <<>>]]
RECURSIVE SecFrames(_, _, _)
SecFrames(rep, js, j) == IF j > Len(rep.secs) THEN <<>>
                         ELSE (IF j \in js THEN RToks("K", j, rep.cfr[j]) ELSE <<>>) \o SecFrames(rep, js, j + 1)
LastSec(js) == CHOOSE j \in js : \A k \in js : k <= j
ExpectOp(rep, i) ==
  LET js == SecsFor(rep, i) IN
  [id |-> rep.ids[i], first |-> (i = 1), state |-> IF js = {} THEN "" ELSE rep.cst[LastSec(js)],
   tok |-> rep.kinds[i], race |-> TRUE, elided |-> FALSE,
   calls |-> RToks("O", i, rep.nfr[i]),
   created |-> SecFrames(rep, js, 1)]
ExpectReport(rep) == [i \in 1..rep.nops |-> ExpectOp(rep, i)]
(* a foreign section is an error, never a misattribution: the report parses up to it *)
HasForeign(rep) == \E j \in 1..Len(rep.secs) : rep.secs[j] = 0
ForeignAt(rep) == CHOOSE j \in 1..Len(rep.secs) : rep.secs[j] = 0
UpToForeign(rep) == LET f == ForeignAt(rep) IN
  [rep EXCEPT !.secs = SubSeq(@, 1, f - 1), !.cfr = SubSeq(@, 1, f - 1), !.cst = SubSeq(@, 1, f - 1)]
=============================================================================
