SPECIFICATION Spec
CONSTANTS
  MaxG = 3
  MaxS = 3
  NP = 4
INVARIANTS
  AlgoIsLabel
  SameValueSameName
  DifferentValuesDifferentNames
  RecurringNamed
  Dense
  Ascending
  NonPointersUnnamed
  Emit
CHECK_DEADLOCK FALSE
