SPECIFICATION TSpec
CONSTANTS
  MaxLen = 1
  Alpha = "full"
INVARIANTS
  TNoPanic
POSTCONDITION Accepted
CHECK_DEADLOCK FALSE
