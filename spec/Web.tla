-------------------------------- MODULE Web --------------------------------
(***************************************************************************)
(* stack/webstack/webstack.go: SnapshotHandler's validation order and the  *)
(* grow-and-retry capture loop of snapshot().                              *)
(*                                                                         *)
(* Requests: method x maxmem x augment x similarity, each absent, valid or  *)
(* invalid.  Status: 405 for a method other than GET; 400 for an           *)
(* unparsable maxmem, an augment outside {0,1}, an unknown similarity;     *)
(* otherwise 200 (500 only if the process's own dump does not parse).      *)
(*                                                                         *)
(* Capture loop, in units of U bytes: the buffer starts at Start units     *)
(* (1 MiB), maxmem is clamped up to it; each attempt the runtime writes    *)
(* min(dump, buffer) bytes, the dump size may change between attempts;     *)
(* a short write ends the loop (complete), a full buffer at maxmem ends it *)
(* (truncated), otherwise the buffer doubles, capped at maxmem.            *)
(***************************************************************************)
EXTENDS Naturals, Sequences, FiniteSets, TLC

Methods == {"GET", "POST", "HEAD"}
MaxmemVals == {"absent", "1", "1048576", "2097151", "1950000", "67108864", "4294967296", "abc", "-5", "1.5"}
AugmentVals == {"absent", "0", "1", "2", "-1", "x"}
SimVals == {"absent", "exactflags", "exactlines", "anypointer", "anyvalue", "alike", "AnyPointer"}

IntLike(v) == v \in {"1", "1048576", "2097151", "1950000", "67108864", "4294967296", "-5"}   \* (a limit, not an allocation: 2^32 is fine)
Status(r) ==
  IF r.method # "GET" THEN 405
  ELSE IF r.maxmem # "absent" /\ ~IntLike(r.maxmem) THEN 400
  ELSE IF r.augment \notin {"absent", "0", "1"} THEN 400
  ELSE IF r.sim \notin {"absent", "exactflags", "exactlines", "anypointer", "anyvalue"} THEN 400
  ELSE 200
Augments(r) == r.augment \in {"absent", "1"}
(* the similarity level a request asks for (the default is the one of the command), and what it
   means for two goroutines that are identical but for the thread-lock flag: only ExactFlags keeps
   them apart (C05 on the handler's pages)                                                        *)
LevelOf(r) == CASE r.sim = "exactflags" -> "ExactFlags" [] r.sim = "exactlines" -> "ExactLines"
                [] r.sim \in {"absent", "anypointer"} -> "AnyPointer" [] r.sim = "anyvalue" -> "AnyValue"
                [] OTHER -> "none"
LockTwinsBuckets(r) == IF LevelOf(r) = "ExactFlags" THEN 2 ELSE 1

---------------------------------------------------------------------------
CONSTANTS Start,     \* initial buffer, in units
          MaxM,      \* largest maxmem explored, in units
          MaxD       \* largest dump explored, in units
VARIABLES m, buf, n, iter, state, dump
cvars == <<m, buf, n, iter, state, dump>>
Min(a, b) == IF a < b THEN a ELSE b
CInit == /\ m \in 1..MaxM /\ buf = Start /\ n = 0 /\ iter = 0 /\ state = "loop" /\ dump \in 1..MaxD
Clamp(x) == IF x < Start THEN Start ELSE x
Attempt ==
  /\ state = "loop"
  /\ \E d \in 1..MaxD :                       \* the dump as it is at this attempt
       LET w == Min(d, buf) IN
       /\ dump' = d /\ n' = w /\ iter' = iter + 1
       /\ IF w < buf THEN state' = "complete" /\ buf' = buf
          ELSE IF buf >= Clamp(m) THEN state' = "truncated" /\ buf' = buf
          ELSE state' = "loop" /\ buf' = Min(2 * buf, Clamp(m))
  /\ UNCHANGED m
CNext == Attempt
CSpec == CInit /\ [][CNext]_cvars

(* never more memory than max(maxmem, 1 MiB) *)
Bounded == buf <= Clamp(m)
(* the loop ends - at most one attempt per doubling, plus one: Terminates, in MC_Web (its
   recursive logarithm is outside what the proof system reads) *)
(* complete iff the last dump was smaller than the buffer; a dump that is
   smaller than maxmem is never reported truncated                           *)
CompleteIff == state = "complete" => n = dump /\ dump < buf
GrowsToMaxmem == state = "truncated" => dump >= Clamp(m)
=============================================================================
