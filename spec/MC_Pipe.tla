------------------------------ MODULE MC_Pipe ------------------------------
(***************************************************************************)
(* Model-checking harness for Pipeline.tla: all streams over a finite      *)
(* alphabet of lines.                                                      *)
(*   hist cfg : every sequence of at most MaxLen lines (history kept).     *)
(*   abs  cfg : VIEW AbsView hides the history; the abstract graph is      *)
(*              finite and explored to any depth (MaxLen is only a guard). *)
(* Every explored transition is emitted as one CASE line: the stream (as   *)
(* alphabet indices, with the end-of-line kind of its last line) and the   *)
(* calls the specification predicts for it under the resume protocol.      *)
(***************************************************************************)
EXTENDS Pipeline, Json

CONSTANTS MaxLen,      \* longest stream
          Alpha        \* "full" | "small"

L0 == <<>>
L1 == <<"s","s">>
L2 == <<"s","s","t">>
L3 == <<"t">>
Ln(bd, lead, p) == [lead |-> lead, body |-> bd, eol |-> "lf", p |-> p]
H(id) == [id |-> id, state |-> "running", tok |-> ""]
T(t) == [id |-> 0, state |-> "", tok |-> t]
RO(id) == [id |-> id, state |-> "", tok |-> "r"]
RG(id, st) == [id |-> id, state |-> st, tok |-> ""]

AFull == << Ln("hdr", L0, H(1)), Ln("hdr", L1, H(2)), Ln("hdr", L3, H(3)),
    Ln("unavail", L3, T("")), Ln("unavail", L2, T("")),
    Ln("func", L0, T("f")), Ln("func", L1, T("g")), Ln("funcbad", L0, T("x")),
    Ln("file", L3, T("a.go")), Ln("file", L2, T("b.go")), Ln("file", L1, T("c.go")), Ln("filebad", L3, T("x")),
    Ln("created", L0, T("c")), Ln("created", L1, T("d")), Ln("createdbad", L0, T("x")),
    Ln("elided", L0, T("")), Ln("elided", L1, T("")),
    Ln("blank", L0, T("")), Ln("blank", L1, T("")),
    Ln("rsep", L0, T("")), Ln("rwarn", L0, T("")),
    Ln("rop", L0, RO(7)), Ln("rprev", L0, RO(8)),
    Ln("rgo", L0, RG(7, "running")), Ln("rgo", L0, RG(9, "finished")),
    Ln("junk", L0, T("")), Ln("junk", L1, T("")) >>

ASmall == << Ln("hdr", L0, H(1)), Ln("func", L0, T("f")), Ln("file", L3, T("a.go")), Ln("created", L0, T("c")),
        Ln("blank", L0, T("")), Ln("junk", L0, T("")), Ln("rsep", L0, T("")), Ln("rwarn", L0, T("")),
        Ln("rop", L0, RO(7)), Ln("elided", L0, T("")),
        Ln("unavail", L3, T("")), Ln("funcbad", L0, T("x")), Ln("rgo", L0, RG(7, "running")),
        Ln("hdr", L1, H(2)), Ln("func", L1, T("g")), Ln("file", L2, T("b.go")) >>

A == IF Alpha = "full" THEN AFull ELSE ASmall

VARIABLES inp, lastEol
vars == <<pvars, inp, lastEol>>

Init == PInit /\ inp = <<>> /\ lastEol = "lf"

CaseJson == ToJson([inp |-> inp', eol |-> lastEol', calls |-> FinalCallsOf(ps'), pp |-> PP(FinalCallsOf(ps'))])

Feed(k, e) ==
  /\ Len(inp) < MaxLen
  /\ FeedLine([A[k] EXCEPT !.eol = e])
  /\ inp' = Append(inp, k)
  /\ lastEol' = e
  /\ PrintT("CASE " \o CaseJson)

(* an unterminated empty line is no line at all *)
Next == \E k \in 1..Len(A) : \E e \in {"lf", "none"} :
           /\ (e = "none" => ~(A[k].body = "blank" /\ A[k].lead = <<>>))
           /\ Feed(k, e)

Spec == Init /\ [][Next]_vars

(* the alphabet, printed once so that the replay side reads what TLC used *)
ASSUME PrintT("UNIV " \o ToJson([alpha |-> A]))

---------------------------------------------------------------------------
IdsOf(gs) == {gs[i].id : i \in 1..Len(gs)}
AbsView == <<s.st, s.P, s.gs = <<>>, IdsOf(s.gs), b.held # <<>>, ended>>

(* the documented grammar: a consumed line moves between documented states  *)
GrammarStep ==
  \A k \in 1..Len(A) :
     LET r == Step(s, A[k]) IN
     r.consumed => r.s.st \in Documented[s.st] \/ r.s.st = "done"
GrammarOK == GrammarStep

CutProp == [][CutMonotone]_vars
=============================================================================
