SPECIFICATION Spec
CONSTANTS
  Mode = "dump"
  MaxG = 2
  MaxFr = 2
INVARIANTS
  Fidelity
  Emit
CHECK_DEADLOCK FALSE
