SPECIFICATION Spec
CONSTANTS
  Mode = "dump"
  MaxG = 2
  MaxFr = 2
  Big = FALSE
INVARIANTS
  Fidelity
  Emit
CHECK_DEADLOCK FALSE
