package main

import (
	"encoding/json"
	"fmt"
	"math"
	"math/rand"
	"reflect"
	"runtime"
	"sync"

	"github.com/maruel/panicparse/v2/stack"
)

// Replay of MC_Print behaviours (spec/MC_Print.tla, spec/Printer.tla): printed
// goroutine dumps and race reports as explicit abstract lines with tokens; the
// lexicon gives each token concrete text and the values the parser must report.

type printCase struct {
	raw   string
	Mode  string     `json:"mode"`
	Lines []absLine  `json:"lines"`
	Calls []specCall `json:"calls"`
	NDump int        `json:"ndump"`
	Pre   int        `json:"pre"` // lines in front of the printed report (a stray separator)
	PP    ppSpec     `json:"pp"`
}

// rich projection of what the API exposes for one goroutine
type richArg struct {
	Agg        bool
	Value      uint64
	IsPtr      bool
	TooLarge   bool
	Inaccurate bool
	Fields     []richArg
	Elided     bool // of the aggregate's field list
}

type richCall struct {
	Complete   string
	ImportPath string
	Name       string
	DirName    string
	IsPkgMain  bool
	Exported   int
	Args       []richArg
	ArgsElided bool
	Path       string
	Line       int
	SrcName    string
	DirSrc     string
	CallImport string
}

type richG struct {
	ID        int
	First     bool
	State     string
	SleepMin  int
	SleepMax  int
	Locked    bool
	Elided    bool
	Calls     []richCall
	Created   []richCall
	RaceAddr  uint64
	RaceWrite bool
}

func isPtrValue(v uint64) bool { return v > 512*1024 && v < math.MaxInt64 }

func richArgsOfNodes(n []argNode) []richArg {
	out := []richArg{}
	for _, x := range n {
		switch {
		case x.agg:
			out = append(out, richArg{Agg: true, Fields: richArgsOfNodes(x.fields), Elided: x.elided})
		case x.tooLarge:
			out = append(out, richArg{TooLarge: true})
		default:
			out = append(out, richArg{Value: x.value, IsPtr: isPtrValue(x.value), Inaccurate: x.inaccurate})
		}
	}
	return out
}

func richArgsOfReal(a *stack.Args) []richArg {
	out := []richArg{}
	for i := range a.Values {
		v := &a.Values[i]
		if v.IsAggregate {
			out = append(out, richArg{Agg: true, Fields: richArgsOfReal(&v.Fields), Elided: v.Fields.Elided})
		} else {
			out = append(out, richArg{Value: v.Value, IsPtr: v.IsPtr, TooLarge: v.IsOffsetTooLarge, Inaccurate: v.IsInaccurate})
		}
	}
	return out
}

func richCallOfReal(c *stack.Call, wantExported int) richCall {
	rc := richCall{Complete: c.Func.Complete, ImportPath: c.Func.ImportPath, Name: c.Func.Name, DirName: c.Func.DirName,
		IsPkgMain: c.Func.IsPkgMain, Exported: -1, Args: richArgsOfReal(&c.Args), ArgsElided: c.Args.Elided,
		Path: c.RemoteSrcPath, Line: c.Line, SrcName: c.SrcName, DirSrc: c.DirSrc, CallImport: c.ImportPath}
	if wantExported >= 0 {
		rc.Exported = 0
		if c.Func.IsExported {
			rc.Exported = 1
		}
	}
	return rc
}

type printer struct {
	lx      *lexicon
	created map[string]string // created token -> " in goroutine N" suffix
	opIdx   int
	opOf    map[int]int // line index -> operation index
}

func (p *printer) render(i int, l *absLine, crlf bool) []byte {
	lx := p.lx
	rng := lx.rng
	var body string
	switch l.Body {
	case "hdr":
		body = lx.hdrOf(l.P.ID).text
	case "unavail":
		body = "goroutine running on other thread; stack unavailable"
	case "func":
		body = lx.fnOf(l.P.Tok).text + "(" + lx.argsOf(l.P.Tok).text + ")"
	case "funcbad": // accepted as a function line, its argument list does not parse
		body = lx.fnOf(l.P.Tok).text + "(" + corruptArgsBad[rng.Intn(len(corruptArgsBad))] + ")"
	case "filebad": // accepted as a file line, its line number does not parse
		body = "/src/bad.go:" + []string{"1234567890123456789", "99999999999999999999", "18446744073709551616000"}[rng.Intn(3)] + " +0x1"
	case "createdbad": // accepted as a created-by line, its symbol does not parse
		body = "created by " + []string{"a/b", "x/y/z", "example.com/p"}[rng.Intn(3)]
	case "file":
		body = lx.fileOf(l.P.Tok).text
	case "created":
		suf, ok := p.created[l.P.Tok]
		if !ok {
			if rng.Intn(2) == 0 {
				suf = fmt.Sprintf(" in goroutine %d", 1+rng.Intn(100000))
			}
			p.created[l.P.Tok] = suf
		}
		body = "created by " + lx.fnOf(l.P.Tok).text + suf
	case "elided":
		body = []string{"...additional frames elided...", "...3 frames elided...", "...118 frames elided..."}[rng.Intn(3)]
	case "blank":
	case "rsep":
		body = "=================="
	case "rwarn":
		body = "WARNING: DATA RACE"
	case "rop", "rprev":
		p.opIdx++
		kind := map[string]string{"ropr": "Read", "ropw": "Write", "rprevr": "Previous read", "rprevw": "Previous write"}[l.Body+l.P.Tok]
		body = fmt.Sprintf("%s at 0x%012x by goroutine %d:", kind, lx.addrOf(p.opIdx), lx.id(l.P.ID))
	case "rgo":
		body = fmt.Sprintf("Goroutine %d (%s) created at:", lx.id(l.P.ID), l.P.State)
	case "junk":
		body = junkTexts[rng.Intn(len(junkTexts))]
	default:
		panic("print: unknown body " + l.Body)
	}
	s := leadBytes(l.Lead) + body
	if l.Eol != "none" {
		if crlf {
			s += "\r\n"
		} else {
			s += "\n"
		}
	}
	return []byte(s)
}

// wildCall stands for a call whose symbol or path absorbed stray white space (possible only in
// malformed input): it is counted, its fields are not compared.
var wildCall = richCall{Complete: "*", Exported: -1, Args: []richArg{}}

func (p *printer) expectCall(a *absCall, created bool) richCall {
	lx := p.lx
	if a.Fn == "unavail" {
		return richCall{Path: "<unavailable>", SrcName: "<unavailable>", Exported: -1, Args: []richArg{}}
	}
	if len(a.Lead) != 0 || len(a.Flead) != 0 {
		return wildCall
	}
	fn := lx.fnOf(a.Fn)
	rc := richCall{Complete: fn.complete, ImportPath: fn.importPath, Name: fn.name, DirName: fn.dirName, IsPkgMain: fn.isMain,
		Exported: fn.exported, Args: []richArg{}}
	if created {
		rc.Complete += p.created[a.Fn]
	} else if a.Fn != "X" {
		ar := lx.argsOf(a.Fn)
		rc.Args = richArgsOfNodes(ar.nodes)
		rc.ArgsElided = ar.elided
	}
	if a.File != "" {
		f := lx.fileOf(a.File)
		rc.Path, rc.Line, rc.SrcName, rc.DirSrc = f.path, f.line, f.srcName, f.dirSrc
	}
	rc.CallImport = fn.importPath
	return rc
}

func (p *printer) expectSnap(mode string, gs []absG) []richG {
	out := []richG{}
	for i := range gs {
		g := &gs[i]
		r := richG{ID: p.lx.id(g.ID), First: g.First, Elided: g.Elided, Calls: []richCall{}, Created: []richCall{}}
		if g.Race {
			r.State = g.State
			r.RaceWrite = g.Tok == "w"
			r.RaceAddr = p.lx.addrOf(i + 1)
		} else {
			h := p.lx.hdrOf(g.ID)
			r.State, r.SleepMin, r.SleepMax, r.Locked = h.state, h.sleep, h.sleep, h.locked
		}
		for j := range g.Calls {
			r.Calls = append(r.Calls, p.expectCall(&g.Calls[j], false))
		}
		for j := range g.Created {
			rc := p.expectCall(&g.Created[j], !g.Race)
			if !g.Race && g.Created[j].File == "" && len(g.Calls) == 1 && g.Calls[0].Fn == "unavail" {
				rc.CallImport = "" // a creator directly after an unavailable stack gets its import path with its file line
			}
			r.Created = append(r.Created, rc)
		}
		out = append(out, r)
	}
	return out
}

func realSnap(s *stack.Snapshot, want []richG) []richG {
	out := []richG{}
	if s == nil {
		return out
	}
	for i, g := range s.Goroutines {
		r := richG{ID: g.ID, First: g.First, State: g.State, SleepMin: g.SleepMin, SleepMax: g.SleepMax, Locked: g.Locked,
			Elided: g.Stack.Elided, Calls: []richCall{}, Created: []richCall{}, RaceAddr: g.RaceAddr, RaceWrite: g.RaceWrite}
		for j := range g.Stack.Calls {
			we := -1
			if i < len(want) && j < len(want[i].Calls) {
				we = want[i].Calls[j].Exported
			}
			if i < len(want) && j < len(want[i].Calls) && want[i].Calls[j].Complete == "*" {
				r.Calls = append(r.Calls, wildCall)
				continue
			}
			r.Calls = append(r.Calls, richCallOfReal(&g.Stack.Calls[j], we))
		}
		for j := range g.CreatedBy.Calls {
			we := -1
			if i < len(want) && j < len(want[i].Created) {
				we = want[i].Created[j].Exported
			}
			if i < len(want) && j < len(want[i].Created) && want[i].Created[j].Complete == "*" {
				r.Created = append(r.Created, wildCall)
				continue
			}
			r.Created = append(r.Created, richCallOfReal(&g.CreatedBy.Calls[j], we))
		}
		out = append(out, r)
	}
	return out
}

func checkPrintCase(res *Result, pc *printCase, rng *rand.Rand, full bool, tag string, opts *stack.Opts) {
	if res.saturated("C01", "C08", "C02", "C07", "C11") {
		return
	}
	crlf := rng.Intn(3) == 0
	p := &printer{lx: newLexicon(rng, res), created: map[string]string{}}
	lines := make([][]byte, len(pc.Lines))
	lens := make([]int, len(pc.Lines))
	var data []byte
	for i := range pc.Lines {
		lines[i] = p.render(i, &pc.Lines[i], crlf)
		lens[i] = len(lines[i])
		data = append(data, lines[i]...)
	}
	prop := "C01"
	if pc.Mode == "race" {
		prop = "C08"
	}
	if pc.Mode == "mut" {
		prop = "C07" // malformed input: what is parsed of it is a matter of delimitation, not of fidelity
	}
	cmp := func(i int, c *specCall, o *callObs) (bool, string, interface{}, interface{}) {
		want := p.expectSnap(pc.Mode, c.Snap)
		got := realSnap(o.Snap, want)
		ok := reflect.DeepEqual(want, got)
		if ok && pc.Mode == "race" && o.Snap != nil && len(o.Snap.Goroutines) > 0 && !o.Snap.IsRace() {
			return false, prop, "IsRace() = true", "IsRace() = false"
		}
		return ok, prop, want, got
	}
	if pc.Mode == "race" && pc.Pre == 0 {
		// the report cut after its first operation (the stream ends there): what was parsed is still a race
		for i := 3; i < len(pc.Lines); i++ {
			if pc.Lines[i].Body == "blank" {
				part := cat2(lines[:i])
				s, _, _, pan := scanOnce(newSource(part, nil, 0, nil, false), discard{}, opts)
				if pan == "" && s != nil && len(s.Goroutines) == 1 && !s.IsRace() {
					res.violation(Finding{Property: "C08", Aspect: "israce-partial", What: tag + ": a race report of which only the first operation arrived yields a goroutine with its race address, but IsRace() is false", Input: part})
				}
				break
			}
		}
	}
	for _, d := range deliveries(lens, rng, full) {
		src := newSource(data, d.plan, d.dflt, nil, d.withData)
		src.keepLog = true
		obs := runStream(src, opts, len(lines)+3)
		judgePipe(res, pc, pc.Calls, lines, data, obs, src, tag+"/"+d.name, cmp)
	}
}

func init() {
	register("print", "replay MC_Print behaviours (printed dumps / race reports) through ScanSnapshot", func(args []string) error {
		c := newCommon("print")
		full := c.fs.Bool("full", false, "every delivery mode for every case")
		rounds := c.fs.Int("rounds", 1, "lexical draws per case")
		_ = c.fs.Parse(args)
		res := newResult("one case = one printed dump or race report (abstract lines with position-unique tokens) emitted by TLC with the calls the specification predicts; each lexical draw gives every token concrete text from the producer models (symbols, argument trees, file lines, headers) and the expected parsed values; non-trivial = every case (each contains a dump), distinct by shape")
		var cases []printCase
		err := scanTLC(*c.in, func(tag string, js []byte) error {
			if tag == "CASE" {
				var pc printCase
				if err := json.Unmarshal(js, &pc); err != nil {
					return err
				}
				pc.raw = string(js)
				cases = append(cases, pc)
			}
			return nil
		})
		if err != nil {
			return err
		}
		sortByKey(len(cases), func(i int) string { return cases[i].raw }, func(i, j int) { cases[i], cases[j] = cases[j], cases[i] })
		if len(cases) == 0 {
			res.infra("no cases in %s", *c.in)
			return res.write(*c.out)
		}
		if *c.limit > 0 && len(cases) > *c.limit {
			rng := rand.New(rand.NewSource(*c.seed))
			rng.Shuffle(len(cases), func(i, j int) { cases[i], cases[j] = cases[j], cases[i] })
			cases = cases[:*c.limit]
		}
		opts := &stack.Opts{}
		var wg sync.WaitGroup
		ch := make(chan int, 1024)
		for w := 0; w < runtime.NumCPU(); w++ {
			wg.Add(1)
			go func() {
				defer wg.Done()
				for i := range ch {
					pc := &cases[i]
					for r := 0; r < *rounds; r++ {
						rng := rand.New(rand.NewSource(*c.seed*1000003 + int64(i)*31 + int64(r)))
						checkPrintCase(res, pc, rng, *full, fmt.Sprintf("case %d", i), opts)
					}
					var sample interface{}
					if i%997 == 0 {
						sample = pc
					}
					js, _ := json.Marshal(pc.Lines)
					res.eval(string(js), true, sample)
				}
			}()
		}
		for i := range cases {
			ch <- i
		}
		close(ch)
		wg.Wait()
		return res.write(*c.out)
	})
}

func cat2(ls [][]byte) []byte {
	var b []byte
	for _, l := range ls {
		b = append(b, l...)
	}
	return b
}
