package main

// This file deliberately does not end in a newline (generated code often does not): the goroutine
// parked in churnLastLine is reported on the last line of the file, which is also the line of the
// function's declaration.

//go:noinline
func churnLastLine(c *churn, n int) int { c.ready.Done(); <-c.nilCh; return n }