package main

import (
	"bytes"
	"encoding/json"
	"fmt"
	"io"
	"math/rand"
	"os"
	"os/exec"
	"sync"
	"time"
)

// C11 end to end: the pp binary as a live filter. The stream is written to pp's
// stdin piece by piece; after each piece, everything the specification says is
// owed - the complete pass-through lines delivered so far, and the rendering of
// every dump whose ending line has been delivered - must become readable on
// pp's stdout while stdin is still open. A missing byte is a violation only if
// it does appear once stdin is closed (withheld, not lost: loss is C02's
// business); if it never appears the run is inconclusive for C11.

type pipeReader struct {
	mu  sync.Mutex
	buf bytes.Buffer
	eof bool
}

func (p *pipeReader) pump(r io.Reader, done chan struct{}) {
	b := make([]byte, 65536)
	for {
		n, err := r.Read(b)
		p.mu.Lock()
		p.buf.Write(b[:n])
		if err != nil {
			p.eof = true
		}
		p.mu.Unlock()
		if err != nil {
			close(done)
			return
		}
	}
}

func (p *pipeReader) len() int {
	p.mu.Lock()
	defer p.mu.Unlock()
	return p.buf.Len()
}

func (p *pipeReader) bytes() []byte {
	p.mu.Lock()
	defer p.mu.Unlock()
	return append([]byte{}, p.buf.Bytes()...)
}

func checkPipesCase(res *Result, r *ppRunner, lines [][]byte, calls []specCall, pp *ppSpec, cs interface{}, tag string, rng *rand.Rand) {
	if !pp.Determined {
		return // pp stops at a parse error: no streaming claim
	}
	// expected output as a function of the number of complete lines delivered
	type seg struct {
		after int // available once this many lines are complete
		data  []byte
	}
	var segs []seg
	for i := range calls {
		c := &calls[i]
		for _, k := range minus(c.Fwd, c.K1) {
			segs = append(segs, seg{after: k, data: lines[k-1]})
		}
		if len(c.Snap) != 0 {
			ro := r.render(cat(lines, c.Cons))
			if ro.code != 0 {
				return
			}
			when := c.Ret
			if when == 0 {
				when = len(lines) + 1 // only at the end of the stream
			}
			segs = append(segs, seg{after: when, data: ro.stdout})
		}
	}
	owed := func(m int) []byte {
		var b []byte
		for _, s := range segs {
			if s.after > m {
				break // output is sequential: nothing after a withheld segment can be owed
			}
			b = append(b, s.data...)
		}
		return b
	}
	cmd := exec.Command(r.bin, "-rebase=false")
	cmd.Env = r.env
	stdin, err := cmd.StdinPipe()
	if err != nil {
		return
	}
	stdout, err := cmd.StdoutPipe()
	if err != nil {
		return
	}
	if err := cmd.Start(); err != nil {
		res.infra("cannot start pp: %v", err)
		return
	}
	pr := &pipeReader{}
	done := make(chan struct{})
	go pr.pump(stdout, done)
	// pieces: one to three lines, sometimes cut in the middle of the next line
	type piece struct {
		data []byte
		m    int // complete lines delivered once this piece is written
	}
	var pieces []piece
	var carry []byte
	for pos := 0; pos < len(lines); {
		data := append([]byte{}, carry...)
		carry = nil
		for j, k := 0, 1+rng.Intn(3); j < k && pos < len(lines); j++ {
			data = append(data, lines[pos]...)
			pos++
		}
		m := pos
		if pos < len(lines) && rng.Intn(2) == 0 && len(lines[pos]) > 2 {
			h := 1 + rng.Intn(len(lines[pos])-1)
			data = append(data, lines[pos][:h]...)
			carry = lines[pos][h:]
			pos++ // the rest of this line goes out with the next piece
		}
		pieces = append(pieces, piece{data, m})
	}
	if carry != nil {
		pieces = append(pieces, piece{carry, len(lines)})
	}
	var firstMissing []byte
	missingAt := -1
	writeFailed := false
	for _, pc := range pieces {
		m := pc.m
		if m == len(lines) && len(lines) > 0 && !bytes.HasSuffix(lines[len(lines)-1], []byte("\n")) {
			m = len(lines) - 1
		}
		if _, err := stdin.Write(pc.data); err != nil {
			writeFailed = true
			break
		}
		want := owed(m)
		deadline := time.Now().Add(10 * time.Second)
		for pr.len() < len(want) && time.Now().Before(deadline) {
			time.Sleep(200 * time.Microsecond)
		}
		if pr.len() < len(want) {
			missingAt = m
			firstMissing = want
			break
		}
	}
	_ = stdin.Close()
	select {
	case <-done:
	case <-time.After(20 * time.Second):
		_ = cmd.Process.Kill()
		res.violation(Finding{Property: "C03", Aspect: "pp-hang", What: tag + ": pp does not exit after its input was closed", Case: cs})
		return
	}
	werr := cmd.Wait()
	got := pr.bytes()
	// C02 end to end, piecewise: whatever the pieces, pp's complete output is its input with each
	// dump replaced by its rendering (the specification predicts no parse error for this stream)
	if missingAt < 0 {
		okTotal := false
		var want0 []byte
		for _, v := range [][2]bool{{false, false}, {true, false}, {true, true}, {false, true}} {
			want, ok := ppWant(r, lines, calls, pp, v[0], v[1])
			if !ok {
				okTotal = true
				break
			}
			if want0 == nil {
				want0 = want
			}
			if bytes.Equal(want, got) {
				okTotal = true
				break
			}
		}
		if !okTotal {
			what := "pp's complete output is not its input with each dump replaced by its rendering"
			if writeFailed {
				what = "pp stopped reading its input before the end of the stream; " + what
			}
			res.violation(Finding{Property: "C02", Aspect: "pp-piecewise", What: fmt.Sprintf("%s: fed in %d pieces with stdin kept open in between, %s (exit: %v)", tag, len(pieces), what, werr),
				Case: cs, Expected: string(want0), Observed: string(got)})
			if writeFailed || len(got) < len(want0) {
				// part of the stream was never scanned: what follows the point where pp stopped - text and dumps - is skipped
				res.violation(Finding{Property: "C07", Aspect: "pp-skipped", What: fmt.Sprintf("%s: fed in %d pieces with stdin kept open in between, pp stops scanning before the end of the stream: the rest is neither forwarded nor parsed (exit: %v)", tag, len(pieces), werr),
					Case: cs, Expected: string(want0), Observed: string(got)})
			}
		}
		res.count("piecewise_totals_compared", 1)
	}
	if missingAt >= 0 {
		if bytes.HasPrefix(got, firstMissing) {
			res.violation(Finding{Property: "C11", Aspect: "pp-withheld", What: fmt.Sprintf("%s: after %d complete lines were delivered, %d bytes were owed on stdout but only appeared once stdin was closed", tag, missingAt, len(firstMissing)),
				Case: cs, Expected: string(firstMissing)})
		} else {
			res.count("pipes_inconclusive", 1)
		}
	}
}

func init() {
	register("pipes", "C11 end to end: pp as a live filter through pipes", func(args []string) error {
		c := newCommon("pipes")
		bin := c.fs.String("pp", "", "pp binary")
		_ = c.fs.Parse(args)
		res := newResult("one case = one stream (MC_Pipe alphabet streams that hold a dump, printed dumps / reports of MC_Print) written to pp's stdin in pieces of 1-3 lines, some ending mid-line, with stdin kept open; after each piece the owed output (pass-through lines and renderings of finished dumps, as Pipeline.tla predicts) must be readable on stdout within 10 s; non-trivial = every case")
		if *bin == "" {
			res.infra("no pp binary")
			return res.write(*c.out)
		}
		r := &ppRunner{bin: *bin, cache: map[string]ppOut{}, env: append(os.Environ(), "GOTRACEBACK=all", "TERM=dumb")}
		var alpha []absLine
		var pipes []pipeCase
		var prints []printCase
		err := scanTLC(*c.in, func(tag string, js []byte) error {
			switch tag {
			case "UNIV":
				var u struct {
					Alpha []absLine `json:"alpha"`
				}
				if json.Unmarshal(js, &u) == nil && len(u.Alpha) > 0 {
					alpha = u.Alpha
				}
			case "CASE":
				if bytes.Contains(js, []byte(`"inp":`)) {
					var pc pipeCase
					if err := json.Unmarshal(js, &pc); err != nil {
						return err
					}
					pc.raw = string(js)
					for _, cl := range pc.Calls {
						if len(cl.Snap) != 0 {
							pipes = append(pipes, pc)
							break
						}
					}
				} else {
					var pc printCase
					if err := json.Unmarshal(js, &pc); err != nil {
						return err
					}
					pc.raw = string(js)
					prints = append(prints, pc)
				}
			}
			return nil
		})
		if err != nil {
			return err
		}
		sortByKey(len(pipes), func(i int) string { return pipes[i].raw }, func(i, j int) { pipes[i], pipes[j] = pipes[j], pipes[i] })
		sortByKey(len(prints), func(i int) string { return prints[i].raw }, func(i, j int) { prints[i], prints[j] = prints[j], prints[i] })
		rng := rand.New(rand.NewSource(*c.seed))
		// pp stops at a parse error: only streams without one make a streaming / conservation claim
		prints = cleanPrints(prints)
		rng.Shuffle(len(pipes), func(i, j int) { pipes[i], pipes[j] = pipes[j], pipes[i] })
		rng.Shuffle(len(prints), func(i, j int) { prints[i], prints[j] = prints[j], prints[i] })
		lim := *c.limit
		if lim <= 0 {
			lim = 300
		}
		if len(pipes) > lim {
			pipes = pipes[:lim]
		}
		if len(prints) > lim {
			prints = prints[:lim]
		}
		if len(pipes)+len(prints) == 0 {
			res.infra("no cases")
			return res.write(*c.out)
		}
		var wg sync.WaitGroup
		sem := make(chan struct{}, 8)
		for i := range pipes {
			wg.Add(1)
			sem <- struct{}{}
			go func(i int) {
				defer func() { <-sem; wg.Done() }()
				pc := &pipes[i]
				jr := rand.New(rand.NewSource(*c.seed*8191 + int64(i)))
				lines := make([][]byte, len(pc.Inp))
				for k, x := range pc.Inp {
					eol := "lf"
					if k == len(pc.Inp)-1 {
						eol = pc.Eol
					}
					lines[k] = renderLine(&alpha[x-1], eol, jr, false)
				}
				checkPipesCase(res, r, lines, pc.Calls, &pc.PP, pc, fmt.Sprintf("pipe case %d", i), jr)
				res.eval(pc.raw, true, sampleEvery(i, 97, pc))
			}(i)
		}
		for i := range prints {
			wg.Add(1)
			sem <- struct{}{}
			go func(i int) {
				defer func() { <-sem; wg.Done() }()
				pc := &prints[i]
				jr := rand.New(rand.NewSource(*c.seed*8191 + 7 + int64(i)))
				p := &printer{lx: newLexicon(jr, nil), created: map[string]string{}}
				lines := make([][]byte, len(pc.Lines))
				for k := range pc.Lines {
					lines[k] = p.render(k, &pc.Lines[k], false)
				}
				checkPipesCase(res, r, lines, pc.Calls, &pc.PP, map[string]interface{}{"mode": pc.Mode, "lines": len(pc.Lines)}, fmt.Sprintf("print case %d", i), jr)
				res.eval(pc.raw, true, nil)
			}(i)
		}
		wg.Wait()
		return res.write(*c.out)
	})
}

// cleanPrints keeps the printed dumps / reports for which the specification predicts no parse error.
func cleanPrints(in []printCase) []printCase {
	var out []printCase
	for _, p := range in {
		ok := true
		for _, c := range p.Calls {
			if c.Err != "" && c.Err != "eof" {
				ok = false
			}
		}
		if ok {
			out = append(out, p)
		}
	}
	return out
}
