package main

import (
	"fmt"
	"math/rand"
	"strings"
)

// absLine is a line of the specification's alphabet (Scanner.tla).
type absLine struct {
	Lead []string `json:"lead"`
	Body string   `json:"body"`
	Eol  string   `json:"eol"`
	P    struct {
		ID    int    `json:"id"`
		State string `json:"state"`
		Tok   string `json:"tok"`
	} `json:"p"`
}

func leadBytes(lead []string) string {
	var sb strings.Builder
	for _, c := range lead {
		if c == "t" {
			sb.WriteByte('\t')
		} else {
			sb.WriteByte(' ')
		}
	}
	return sb.String()
}

// Token tables of the structural alphabet. Each abstract token maps to the
// concrete text variants of its line body and to what the parser must report
// for it (the symbol / path the projection maps back to the token). Variants
// are picked by the seed; every variant of one token has the same class.
var fnTexts = map[string][]string{
	"f": {"main.f(0x1)", "main.f(0xc000012345, 0x2, ...)", "main.f({0x1, 0x2}, 0x3?)", "main.f()"},
	"g": {"example.com/p/q.g(0x1)", "example.com/p/q.g(...)", "example.com/p/q.g(0x10, {0x1, {0x2}})"},
	// accepted by reFunc, rejected by the argument parser or by Func.Init
	"x": {"main.x({0x1)", "main.x(0x1})", "main.x(zz)", "main.x(0x1ffffffffffffffff)"},
}
var fnSymbol = map[string]string{"f": "main.f", "g": "example.com/p/q.g", "x": "main.x"}

var fileTexts = map[string][]string{
	"a.go": {"/src/a.go:12 +0x1f", "/src/a.go:12", "/src/a.go:12 +0x1f fp=0xc00003e7a8 sp=0xc00003e788 pc=0x43a9c5"},
	"b.go": {"/src/p/b.go:7 +0x5", "/src/p/b.go:7"},
	"c.go": {"/src/c.go:99 +0x0", "/src/c.go:99"},
	// accepted by reFile, line number too long for atou
	"x": {"/src/x.go:1234567890123456789012 +0x1"},
}
var filePath = map[string]string{"a.go": "/src/a.go", "b.go": "/src/p/b.go", "c.go": "/src/c.go", "x": "/src/x.go"}

var createdTexts = map[string][]string{
	"c": {"created by main.c", "created by main.c in goroutine 5"},
	"d": {"created by example.com/p.d", "created by example.com/p.d in goroutine 17"},
	// accepted by reCreated, rejected by Func.Init (slash without a dot after it)
	"x": {"created by a/x"},
}
var createdSymbol = map[string][]string{
	"c": {"main.c", "main.c in goroutine 5"},
	"d": {"example.com/p.d", "example.com/p.d in goroutine 17"},
}

var junkTexts = []string{
	"hello world", "panic: boom", "exit status 2", "[signal SIGSEGV: segmentation violation]",
	"goroutine 1 [running]", "Goroutine 7 (running) created", "=================", "===================",
	"WARNING: DATA RACE!", "Read at 0x00c00001 by thread T1:", "été ☃", "main.f(0x1) trailing",
	"created at main.c", "goroutine one [running]:", "goroutine 1234567890123456789012 [running]:",
	// near misses of the elided-frames marker and of other dump lines: ordinary text
	"...output truncated...", "... [1532 lines skipped] ...", "...additional frames elided", "..additional frames elided...",
	"... frames elided", "goroutine running on other thread", "Previous write at 0x00c000010000 by thread T1:",
	// terminal control sequences in the text of a program (coloured loggers, progress bars)
	"\x1b[31mERROR\x1b[0m something failed", "progress \x1b[2K\r 42%", "bell\x07 and escape \x1b alone",
}

// renderBody returns the text of a line body. variant selection is seeded.
func renderBody(l *absLine, rng *rand.Rand) string {
	pick := func(v []string) string {
		if rng == nil {
			return v[0]
		}
		return v[rng.Intn(len(v))]
	}
	switch l.Body {
	case "hdr":
		st := l.P.State
		if st == "" {
			st = "running"
		}
		return fmt.Sprintf("goroutine %d [%s]:", l.P.ID, st)
	case "unavail":
		return "goroutine running on other thread; stack unavailable"
	case "func", "funcbad":
		return pick(fnTexts[l.P.Tok])
	case "file", "filebad":
		return pick(fileTexts[l.P.Tok])
	case "created", "createdbad":
		return pick(createdTexts[l.P.Tok])
	case "elided":
		return pick([]string{"...additional frames elided...", "...3 frames elided...", "...118 frames elided..."})
	case "blank":
		return ""
	case "rsep":
		return "=================="
	case "rwarn":
		return "WARNING: DATA RACE"
	case "rop":
		if l.P.Tok == "w" {
			return fmt.Sprintf("Write at 0x00c000010000 by goroutine %d:", l.P.ID)
		}
		return fmt.Sprintf("Read at 0x00c000010000 by goroutine %d:", l.P.ID)
	case "rprev":
		if l.P.Tok == "w" {
			return fmt.Sprintf("Previous write at 0x00c000010000 by goroutine %d:", l.P.ID)
		}
		return fmt.Sprintf("Previous read at 0x00c000010000 by goroutine %d:", l.P.ID)
	case "rgo":
		return fmt.Sprintf("Goroutine %d (%s) created at:", l.P.ID, l.P.State)
	case "junk":
		return pick(junkTexts)
	}
	panic("unknown body " + l.Body)
}

func renderLine(l *absLine, eol string, rng *rand.Rand, crlf bool) []byte {
	s := leadBytes(l.Lead) + renderBody(l, rng)
	switch eol {
	case "none":
	default:
		if crlf {
			s += "\r\n"
		} else {
			s += "\n"
		}
	}
	return []byte(s)
}
