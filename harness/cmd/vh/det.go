package main

import (
	"bytes"
	"encoding/json"
	"fmt"
	"math/rand"
	"os"
	"path/filepath"
	"reflect"
	"regexp"
	"strings"

	"github.com/maruel/panicparse/v2/stack"
)

// C06: the same input, options and files give the same result: repeated in one
// process (Go randomises map iteration on every range), interleaved with other
// inputs, and across processes of pp (console and -html, creation time masked).

var reCreatedOn = regexp.MustCompile(`Created on [^<]*`)

// renderAll aggregates at the four levels and renders; the levels are visited in the given
// order, the output is assembled in a fixed order, so that it must not depend on which call
// came first.
func renderAll(s *stack.Snapshot, order []int) string {
	levels := []stack.Similarity{stack.ExactFlags, stack.ExactLines, stack.AnyPointer, stack.AnyValue}
	parts := make([]string, 5)
	for _, k := range order {
		var sb strings.Builder
		if k == 4 {
			var buf bytes.Buffer
			_ = s.ToHTML(&buf, "")
			parts[4] = reCreatedOn.ReplaceAllString(buf.String(), "Created on X")
			continue
		}
		a := s.Aggregate(levels[k])
		for _, b := range a.Buckets {
			fmt.Fprintf(&sb, "%v %v %+v\n", b.IDs, b.First, projSig(&b.Signature))
		}
		var buf bytes.Buffer
		_ = a.ToHTML(&buf, "")
		sb.WriteString(reCreatedOn.ReplaceAllString(buf.String(), "Created on X"))
		parts[k] = sb.String()
	}
	return strings.Join(parts, "\x00")
}

func init() {
	register("det", "C06: repeated executions in one process and across pp processes", func(args []string) error {
		c := newCommon("det")
		bin := c.fs.String("pp", "", "pp binary")
		repeats := c.fs.Int("repeats", 20, "in-process repetitions per input")
		procs := c.fs.Int("procs", 4, "pp processes per input")
		_ = c.fs.Parse(args)
		res := newResult("one case = one input (printed dumps of MC_Agg's universes, which hold buckets that tie under the ordering; dumps with overlapping remote GOPATH roots against a local tree; printed dumps and race reports of MC_Print) scanned with naming and path guessing, aggregated at 4 levels and rendered as HTML, repeatedly in one process in shuffled order, and through several pp processes (console and -html); non-trivial = every input")
		var U []absSig
		var aggs []aggCase
		var prints []printCase
		var err error
		for _, inPath := range strings.Split(*c.in, ",") {
			if err != nil {
				break
			}
			err = scanTLC(inPath, func(tag string, js []byte) error {
				switch tag {
				case "UNIV":
					var u struct {
						U []absSig `json:"U"`
					}
					if json.Unmarshal(js, &u) == nil && len(u.U) > 0 {
						U = u.U
					}
				case "CASE":
					if bytes.Contains(js, []byte(`"lvl":`)) {
						var ac aggCase
						if json.Unmarshal(js, &ac) == nil {
							ac.raw = string(js)
							aggs = append(aggs, ac)
						}
					} else if bytes.Contains(js, []byte(`"lines":`)) {
						var pc printCase
						if json.Unmarshal(js, &pc) == nil {
							pc.raw = string(js)
							prints = append(prints, pc)
						}
					}
				}
				return nil
			})
		}
		if err != nil {
			return err
		}
		for i := range U {
			normSig(&U[i])
		}
		sortByKey(len(aggs), func(i int) string { return aggs[i].raw }, func(i, j int) { aggs[i], aggs[j] = aggs[j], aggs[i] })
		sortByKey(len(prints), func(i int) string { return prints[i].raw }, func(i, j int) { prints[i], prints[j] = prints[j], prints[i] })
		rng := rand.New(rand.NewSource(*c.seed))
		type input struct {
			name string
			dump string
			opts *stack.Opts
		}
		var inputs []input
		// (1) aggregation universes: prefer the longest sequences (most buckets, most ties)
		rng.Shuffle(len(aggs), func(i, j int) { aggs[i], aggs[j] = aggs[j], aggs[i] })
		lim := *c.limit
		if lim <= 0 {
			lim = 150
		}
		seen := map[string]bool{}
		for _, ac := range aggs {
			if len(inputs) >= lim {
				break
			}
			k := fmt.Sprint(ac.Snap)
			if seen[k] || len(ac.Snap) < 3 {
				continue
			}
			seen[k] = true
			var sb strings.Builder
			for p, x := range ac.Snap {
				if p > 0 {
					sb.WriteString("\n")
				}
				printSig(&sb, p+1, &U[x-1])
			}
			inputs = append(inputs, input{name: "agg " + k, dump: sb.String(), opts: &stack.Opts{NameArguments: true}})
		}
		// (2) printed dumps / race reports
		rng.Shuffle(len(prints), func(i, j int) { prints[i], prints[j] = prints[j], prints[i] })
		for i := 0; i < len(prints) && i < lim/2; i++ {
			p := &printer{lx: newLexicon(rand.New(rand.NewSource(*c.seed+int64(i))), nil), created: map[string]string{}}
			var data []byte
			for k := range prints[i].Lines {
				data = append(data, p.render(k, &prints[i].Lines[k], false)...)
			}
			inputs = append(inputs, input{name: fmt.Sprint("print ", i), dump: string(data), opts: &stack.Opts{NameArguments: true}})
		}
		// (3) overlapping remote roots against a local tree (which root explains a frame must not depend on map order)
		root, err := os.MkdirTemp("", "vh-det-")
		if err != nil {
			return err
		}
		defer os.RemoveAll(root)
		gp := filepath.ToSlash(filepath.Join(root, "gopath"))
		for _, f := range []string{"src/c/x.go", "src/q/y.go", "src/b/src/c/z.go", "pkg/mod/m@v1/w.go"} {
			p := filepath.Join(gp, f)
			_ = os.MkdirAll(filepath.Dir(p), 0o755)
			_ = os.WriteFile(p, []byte("package p\n"), 0o644)
		}
		for _, m := range []string{"modA", "modA/sub", "modAB"} {
			p := filepath.Join(root, m, "go.mod")
			_ = os.MkdirAll(filepath.Dir(p), 0o755)
			_ = os.WriteFile(p, []byte("module example.com/"+strings.ReplaceAll(m, "/", "_")+"\n"), 0o644)
			_ = os.WriteFile(filepath.Join(root, m, "f.go"), []byte("package p\n"), 0o644)
		}
		r := filepath.ToSlash(root)
		overlap := []string{
			"goroutine 1 [running]:\nc.X()\n\t/a/src/b/src/c/x.go:1 +0x1\nq.Y()\n\t/a/src/q/y.go:2 +0x1\nc.Z()\n\t/a/src/b/src/c/z.go:3 +0x1\n",
			"goroutine 1 [running]:\nc.X()\n\t/a/src/b/src/c/x.go:1 +0x1\nq.Y()\n\t/a/src/q/y.go:2 +0x1\nm.W()\n\t/a/src/b/pkg/mod/m@v1/w.go:4 +0x1\n\ngoroutine 2 [running]:\nq.Y()\n\t/a/src/q/y.go:2 +0x1\ncreated by c.X\n\t/a/src/b/src/c/x.go:9 +0x1\n",
			fmt.Sprintf("goroutine 1 [running]:\nmain.a()\n\t%s/modA/f.go:1 +0x1\nmain.b()\n\t%s/modA/sub/f.go:1 +0x1\nmain.c()\n\t%s/modAB/f.go:1 +0x1\n", r, r, r),
		}
		for i, d := range overlap {
			// (an empty entry in the middle of the list of local GOPATHs, as GOPATH=a::b gives)
			inputs = append(inputs, input{name: fmt.Sprint("overlapping roots ", i), dump: d,
				opts: &stack.Opts{LocalGOROOT: "/nonexistent-goroot", LocalGOPATHs: []string{gp, "", filepath.Join(root, "gopath2")}, GuessPaths: true, NameArguments: true}})
		}
		optsBefore := make([]stack.Opts, len(inputs))
		for i := range inputs {
			optsBefore[i] = *inputs[i].opts
			optsBefore[i].LocalGOPATHs = append([]string{}, inputs[i].opts.LocalGOPATHs...)
		}
		defer func() {
			for i := range inputs {
				if !reflect.DeepEqual(optsBefore[i].LocalGOPATHs, append([]string{}, inputs[i].opts.LocalGOPATHs...)) || optsBefore[i].LocalGOROOT != inputs[i].opts.LocalGOROOT {
					res.violation(Finding{Property: "C06", Aspect: "opts-written", What: inputs[i].name + ": scanning wrote to the options value it was given (a later scan with the same value sees other options)", Expected: optsBefore[i].LocalGOPATHs, Observed: inputs[i].opts.LocalGOPATHs})
					res.violation(Finding{Property: "C14", Aspect: "opts-written", What: inputs[i].name + ": scanning wrote to the options value it was given (shared between concurrent callers)", Expected: optsBefore[i].LocalGOPATHs, Observed: inputs[i].opts.LocalGOPATHs})
					_ = res.write(*c.out)
					break
				}
			}
		}()
		if len(inputs) < 5 {
			res.infra("too few inputs")
			return res.write(*c.out)
		}
		// in-process: every input repeatedly, in shuffled order so that each run follows a different earlier call
		first := make([]string, len(inputs))
		firstSnap := make([]*stack.Snapshot, len(inputs))
		bad := make([]bool, len(inputs))
		for rep := 0; rep < *repeats; rep++ {
			order := rng.Perm(len(inputs))
			for _, i := range order {
				if bad[i] {
					continue
				}
				in := &inputs[i]
				// alternate the way the bytes are delivered: the result must not depend on it, nor on
				// what an earlier call left behind (e.g. in a pooled reader)
				var s *stack.Snapshot
				switch rep % 4 {
				case 0:
					s = parseDump(in.dump, in.opts)
				case 1:
					s, _, _, _ = scanOnce(newSource([]byte(in.dump), nil, 0, nil, true), discard{}, in.opts)
				case 2:
					s, _, _, _ = scanOnce(newSource([]byte(in.dump+"trailing text\nmore\n"), nil, 0, nil, true), discard{}, in.opts)
				default:
					// some text in front, delivered in pieces that do not respect lines
					s, _, _, _ = scanOnce(newSource([]byte("a line of text in front of the dump, some fifty bytes\n"+in.dump), nil, 40+rng.Intn(220), nil, false), discard{}, in.opts)
				}
				if s == nil {
					if first[i] != "" {
						res.violation(Finding{Property: "C06", Aspect: "snapshot", What: in.name + ": scanning the same bytes again returned no snapshot (repetition " + fmt.Sprint(rep+1) + ")", Input: []byte(in.dump)})
						bad[i] = true
					}
					continue
				}
				out := renderAll(s, rng.Perm(5))
				if first[i] == "" {
					first[i], firstSnap[i] = out, s
					continue
				}
				if !reflect.DeepEqual(firstSnap[i], s) {
					res.violation(Finding{Property: "C06", Aspect: "snapshot", What: in.name + ": scanning the same bytes with the same options and files gives a different snapshot (repetition " + fmt.Sprint(rep+1) + ")", Input: []byte(in.dump)})
					bad[i] = true
				} else if first[i] != out {
					res.violation(Finding{Property: "C06", Aspect: "render", What: in.name + ": buckets / merged signatures / HTML differ between repetitions in one process (repetition " + fmt.Sprint(rep+1) + ")", Input: []byte(in.dump)})
					bad[i] = true
				}
			}
		}
		// nothing depends on earlier calls made with other options: the same dump is rendered without path
		// guessing and then with it (its frames are then standard library), and a second dump - the same
		// but for fresh package and function names - the other way round; name for name the pages agree
		{
			groot := filepath.Join(root, "goroot")
			mkd := func(k int) string {
				_ = os.MkdirAll(filepath.Join(groot, "src", fmt.Sprint("detpkg", k)), 0o755)
				_ = os.WriteFile(filepath.Join(groot, "src", fmt.Sprint("detpkg", k), "f.go"), []byte("package p\n"), 0o644)
				return fmt.Sprintf("goroutine 1 [running]:\ndetpkg%d.Serve%d(0x1)\n\t/remote/goroot/src/detpkg%d/f.go:5 +0x1\ndetpkg%d.(*T).run%d()\n\t/remote/goroot/src/detpkg%d/f.go:9 +0x1\n\ngoroutine 2 [select]:\ndetpkg%d.Serve%d(0x2)\n\t/remote/goroot/src/detpkg%d/f.go:5 +0x1\n", k, k, k, k, k, k, k, k, k)
			}
			oa := &stack.Opts{NameArguments: true}
			ob := &stack.Opts{LocalGOROOT: groot, GuessPaths: true, NameArguments: true}
			pageOf := func(dump string, o *stack.Opts, k int) string {
				sn := parseDump(dump, o)
				if sn == nil {
					return "no snapshot"
				}
				out := renderAll(sn, []int{0, 1, 2, 3, 4})
				out = strings.ReplaceAll(out, fmt.Sprint("detpkg", k), "detpkgK")
				out = strings.ReplaceAll(out, fmt.Sprint("Serve", k), "ServeK")
				return strings.ReplaceAll(out, fmt.Sprint("run", k), "runK")
			}
			d1, d2 := mkd(1), mkd(2)
			a1, b1 := pageOf(d1, oa, 1), pageOf(d1, ob, 1)
			b2, a2 := pageOf(d2, ob, 2), pageOf(d2, oa, 2)
			if !strings.Contains(b1+b2, "golang.org/pkg/") {
				res.drift(Finding{Property: "C06", Aspect: "history", What: "with path guessing the frames of the history pair are not linked as standard library: the pair exercises nothing"})
			}
			if a1 != a2 || b1 != b2 {
				res.violation(Finding{Property: "C06", Aspect: "history", What: "the pages written for a dump depend on the options of earlier calls in the same process: rendered without and then with path guessing, a dump gives other pages than an identical one (fresh names) rendered with and then without", Input: []byte(d1),
					Expected: map[string]bool{"without guessing agree": a1 == a2, "with guessing agree": b1 == b2}})
			}
			res.count("history_pairs", 1)
		}
		orderTies(res, "C06")
		// across processes
		if *bin != "" {
			pr := &ppRunner{bin: *bin, cache: map[string]ppOut{}, env: append(os.Environ(), "GOTRACEBACK=all", "TERM=dumb", "GOPATH="+gp)}
			for i := range inputs {
				in := &inputs[i]
				var ref, refHTML string
				for p := 0; p < *procs; p++ {
					flags := []string{}
					if in.opts.GuessPaths {
						flags = append(flags, "-rebase=true", "-rel-path")
					}
					o := pr.run([]byte(in.dump), flags...)
					hp := filepath.Join(root, fmt.Sprintf("out_%d_%d.html", i, p))
					if p%2 == 1 {
						// the report file exists already and is longer than the report (an earlier, larger crash)
						_ = os.WriteFile(hp, bytes.Repeat([]byte("<p>leftover of an earlier report</p>\n"), 40000), 0o644)
					}
					oh := pr.run([]byte(in.dump), append(flags, "-html", hp)...)
					hb, _ := os.ReadFile(hp)
					_ = os.Remove(hp)
					h := reCreatedOn.ReplaceAllString(string(hb), "Created on X")
					_ = oh
					if p == 0 {
						ref, refHTML = string(o.stdout), h
						if in.opts.GuessPaths {
							// -parse=false turns off source analysis only: relative paths are still computed
							if np := pr.run([]byte(in.dump), append(append([]string{}, flags...), "-parse=false")...); string(np.stdout) != ref {
								res.violation(Finding{Property: "C18", Aspect: "pp-flags", What: in.name + ": pp -rel-path prints other paths with -parse=false (which only concerns source analysis) than without it", Input: []byte(in.dump), Expected: ref, Observed: string(np.stdout)})
							}
						}
						continue
					}
					if string(o.stdout) != ref {
						res.violation(Finding{Property: "C06", Aspect: "pp", What: in.name + ": two pp processes print different console text for the same input", Input: []byte(in.dump), Expected: ref, Observed: string(o.stdout)})
						break
					}
					if h != refHTML {
						res.violation(Finding{Property: "C06", Aspect: "pp-html", What: in.name + ": two pp processes write different HTML for the same input (creation time masked; the second one over an existing, longer file)", Input: []byte(in.dump)})
						if strings.Contains(h, "leftover of an earlier report") {
							res.violation(Finding{Property: "C17", Aspect: "pp-html-leftover", What: in.name + ": the HTML report written over an existing file still holds the old file's tail: the document is not the rendering of this input", Input: []byte(in.dump)})
						}
						break
					}
				}
			}
		}
		for i := range inputs {
			res.eval(inputs[i].name, true, sampleEvery(i, 53, map[string]string{"input": inputs[i].name, "dump": inputs[i].dump}))
		}
		return res.write(*c.out)
	})
}
