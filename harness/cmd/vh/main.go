// Command vh is the implementation side of the conformance checks: it reads
// behaviours emitted by TLC (CASE lines), concretises them to bytes, drives the
// real panicparse code built from /repo's working tree, projects what the public
// API exposes back to the specification's vocabulary and compares. It also
// records executions of the real code as ndjson traces for TLC to validate.
//
// Every subcommand writes one JSON Result to the file given with -out. The
// orchestrator (bin/vcheck) decides exit codes and writes evidence.
package main

import (
	"flag"
	"fmt"
	"os"
)

type subcmd struct {
	name string
	run  func(args []string) error
	help string
}

var subcmds []subcmd

func register(name, help string, run func(args []string) error) {
	subcmds = append(subcmds, subcmd{name: name, run: run, help: help})
}

func main() {
	if len(os.Args) < 2 {
		usage()
		os.Exit(2)
	}
	for _, s := range subcmds {
		if s.name == os.Args[1] {
			if err := s.run(os.Args[2:]); err != nil {
				fmt.Fprintf(os.Stderr, "vh %s: %v\n", s.name, err)
				os.Exit(2)
			}
			return
		}
	}
	usage()
	os.Exit(2)
}

func usage() {
	fmt.Fprintf(os.Stderr, "usage: vh <subcommand> [flags]\n")
	for _, s := range subcmds {
		fmt.Fprintf(os.Stderr, "  %-14s %s\n", s.name, s.help)
	}
}

// common flags
type common struct {
	fs    *flag.FlagSet
	in    *string
	out   *string
	seed  *int64
	tier  *string
	limit *int
}

func newCommon(name string) *common {
	fs := flag.NewFlagSet(name, flag.ExitOnError)
	return &common{
		fs:    fs,
		in:    fs.String("in", "", "input file (TLC output or cases)"),
		out:   fs.String("out", "", "result JSON file"),
		seed:  fs.Int64("seed", 1, "seed for every random choice"),
		tier:  fs.String("tier", "quick", "quick|thorough"),
		limit: fs.Int("limit", 0, "max cases to replay (0 = all)"),
	}
}
