package main

import (
	"bytes"
	"encoding/json"
	"fmt"
	"math/rand"
	"os"
	"reflect"
	"runtime"
	"strings"
	"sync"

	"github.com/maruel/panicparse/v2/stack"
)

// Delivery-independence drivers that TLC does not generate (DESIGN.md C09 (a')
// and (c)): every split set of short inputs, every pair of split points of a
// medium input holding an indented dump, lines around the buffer size, and
// seeded random / adversarial chunkings of long streams. The oracle is the
// all-at-once delivery of the same bytes; junk-only runs are also recorded as
// ndjson traces for validation by TLC against Reader.tla with B = 16384.

func sampleDump(indent string, n int, eol string) string {
	var sb strings.Builder
	for i := 1; i <= n; i++ {
		if i > 1 {
			sb.WriteString(eol)
		}
		fmt.Fprintf(&sb, "%sgoroutine %d [chan receive, %d minutes]:%s", indent, i, i, eol)
		if i%3 == 0 {
			// every third goroutine runs on another thread: no frames, but a creator
			fmt.Fprintf(&sb, "%s\tgoroutine running on other thread; stack unavailable%s", indent, eol)
		} else {
			fmt.Fprintf(&sb, "%smain.worker(0xc00001%04x, {0x%x, 0x2})%s", indent, i, i, eol)
			fmt.Fprintf(&sb, "%s\t/home/u/src/app/worker.go:%d +0x1f%s", indent, 10+i, eol)
			if i%4 == 0 {
				fmt.Fprintf(&sb, "%s...additional frames elided...%s", indent, eol)
			}
		}
		fmt.Fprintf(&sb, "%screated by main.start in goroutine 1%s", indent, eol)
		fmt.Fprintf(&sb, "%s\t/home/u/src/app/main.go:%d +0x2a%s", indent, 20+i, eol)
	}
	return sb.String()
}

func sampleRace() string {
	return "==================\nWARNING: DATA RACE\nWrite at 0x00c000010000 by goroutine 7:\n  main.inc()\n      /a/main.go:10 +0x3a\n\n" +
		"Previous read at 0x00c000010000 by goroutine 6:\n  main.get()\n      /a/main.go:14 +0x56\n\n" +
		"Goroutine 7 (running) created at:\n  main.main()\n      /a/main.go:20 +0xb0\n\n" +
		"Goroutine 6 (finished) created at:\n  main.main()\n      /a/main.go:21 +0xb0\n==================\n"
}

type chunkJob struct {
	name string
	data []byte
	plan []int
	dflt int
	wd   bool
}

func runChunkJob(res *Result, j *chunkJob, ref obsSummary) {
	if res.saturated("C09") {
		return
	}
	src := newSource(j.data, j.plan, j.dflt, nil, j.wd)
	obs := runStream(src, &stack.Opts{}, 64)
	a := summarize(obs)
	bad := ""
	for _, o := range obs {
		if o.Panic != "" {
			bad = "panic: " + firstLine(o.Panic)
		}
	}
	if src.hung {
		bad = "hang"
	}
	if bad == "" && (!bytes.Equal(a.Fwd, ref.Fwd) || !bytes.Equal(a.Rest, ref.Rest) || !reflect.DeepEqual(a.Snaps, ref.Snaps) || a.Err != ref.Err || a.Calls != ref.Calls) {
		bad = "result depends on the delivery schedule"
	}
	if bad != "" {
		plan := j.plan
		if len(plan) > 40 {
			plan = plan[:40]
		}
		res.violation(Finding{Property: "C09", Aspect: "chunks", What: j.name + ": " + bad, Case: map[string]interface{}{"name": j.name, "plan_head": plan, "dflt": j.dflt, "eof_with_data": j.wd, "len": len(j.data)},
			Input: j.data, Expected: ref.brief(), Observed: a.brief()})
	}
}

func refOf(data []byte) obsSummary {
	return summarize(runStream(newSource(data, nil, 0, nil, false), &stack.Opts{}, 64))
}

func init() {
	register("chunks", "delivery independence under exhaustive / random / adversarial chunkings (oracle: all-at-once)", func(args []string) error {
		c := newCommon("chunks")
		traceOut := c.fs.String("trace", "", "write ndjson reader traces of junk-only runs here")
		_ = c.fs.Parse(args)
		thorough := *c.tier == "thorough"
		res := newResult("one case = one (byte stream, delivery schedule) pair: all 2^(n-1) split sets of short inputs, all pairs of split points of a ~330-byte stream holding an indented dump, lines of 16382..16386 and 32767..32769 bytes, seeded random and adversarial chunkings (1 byte, primes, 16383/16384/16385, runs of zero-length reads) of long streams with dumps; oracle = the all-at-once delivery; non-trivial = more than one chunk")
		rng := rand.New(rand.NewSource(*c.seed))
		var jobs []chunkJob
		refs := map[string]obsSummary{}
		add := func(name string, data []byte, plan []int, dflt int, wd bool) {
			k := string(data)
			if _, ok := refs[k]; !ok {
				refs[k] = refOf(data)
			}
			jobs = append(jobs, chunkJob{name: name, data: data, plan: plan, dflt: dflt, wd: wd})
		}
		// (1) every split set of short inputs
		shorts := []string{"a\n\nb\r\nc", "x\n==================\ny\n", "goroutine 1 [r]:\na()\n", "  goroutine 1 [r]:\n  a()\n  \t.go:1\n"}
		maxAll := 14
		if thorough {
			maxAll = 17
		}
		for _, s := range shorts {
			d := []byte(s)
			n := len(d)
			if n > maxAll+1 {
				d = d[:maxAll+1]
				n = len(d)
			}
			for mask := 0; mask < 1<<(n-1); mask++ {
				var plan []int
				last := 0
				for i := 1; i < n; i++ {
					if mask&(1<<(i-1)) != 0 {
						plan = append(plan, i-last)
						last = i
					}
				}
				plan = append(plan, n-last)
				add(fmt.Sprintf("allsplits %q mask=%x", s, mask), d, plan, 0, mask%2 == 1)
			}
		}
		// (2) all pairs of split points of a medium stream with an indented dump
		for _, indent := range []string{"", "    ", "\t"} {
			med := []byte("panic: boom\n\n" + sampleDump(indent, 2, "\n") + "\nexit status 2\n")
			n := len(med)
			step := 1
			if !thorough {
				step = 3
			}
			for i := 1; i < n; i += step {
				for j := i + 1; j < n; j += step {
					add(fmt.Sprintf("pairs indent=%q %d,%d", indent, i, j), med, []int{i, j - i, n - j}, 0, false)
				}
			}
		}
		// (3) lines around the buffer size, as junk and inside a dump
		for _, L := range []int{realBuf - 2, realBuf - 1, realBuf, realBuf + 1, realBuf + 2, 2*realBuf - 1, 2 * realBuf, 2*realBuf + 1, 5*realBuf + 3} {
			junk := append(bytes.Repeat([]byte("j"), L-1), '\n')
			long := "main.f" + strings.Repeat("o", L-12) + "(0x1)\n" // a function line of exactly L bytes
			streams := map[string][]byte{
				"junkline":  append(append([]byte("a\n"), junk...), []byte("b\n")...),
				"dumpline":  []byte("pre\ngoroutine 1 [running]:\n" + long + "\t/a/b.go:1 +0x1\n\npost\n"),
				"indentbig": []byte("pre\n  goroutine 1 [running]:\n  " + long + "  \t/a/b.go:1 +0x1\n\n  goroutine 2 [running]:\n  main.g()\n  \t/a/c.go:2\npost\n"),
			}
			for nm, d := range streams {
				for _, dflt := range []int{1, 7, 4096, realBuf - 1, realBuf, realBuf + 1} {
					if dflt == 1 && !thorough && L > realBuf+2 {
						continue
					}
					add(fmt.Sprintf("%s L=%d chunk=%d", nm, L, dflt), d, nil, dflt, dflt%2 == 1)
				}
			}
		}
		// (4) long streams with several dumps, random and adversarial chunkings
		nLong := 6
		if thorough {
			nLong = 40
		}
		for k := 0; k < nLong; k++ {
			var sb strings.Builder
			for sb.Len() < 40000+rng.Intn(60000) {
				switch rng.Intn(5) {
				case 0:
					sb.WriteString("log line " + strings.Repeat("z", rng.Intn(300)) + "\n")
				case 1:
					sb.WriteString("panic: x\n\n" + sampleDump([]string{"", "  ", "\t", "      "}[rng.Intn(4)], 1+rng.Intn(40), []string{"\n", "\r\n"}[rng.Intn(2)]) + "\nexit status 2\n")
				case 2:
					sb.WriteString(sampleRace())
				case 3:
					sb.WriteString(strings.Repeat("q", rng.Intn(40000)) + "\n")
				default:
					sb.WriteString("==================\nnot a race\n")
				}
			}
			d := []byte(sb.String())
			add(fmt.Sprintf("long%d rand", k), d, randomPlan(len(d), rng), 0, rng.Intn(2) == 0)
			for _, dflt := range []int{13, 127, 4099, realBuf - 1, realBuf, realBuf + 1} {
				add(fmt.Sprintf("long%d chunk=%d", k, dflt), d, nil, dflt, dflt%2 == 0)
			}
			// runs of zero-length reads below the retry bound between chunks
			var plan []int
			for left := len(d); left > 0; {
				n := 1 + rng.Intn(9000)
				if n > left {
					n = left
				}
				plan = append(plan, n)
				left -= n
				for z := rng.Intn(3) * 33; z > 0; z-- {
					plan = append(plan, 0)
				}
			}
			add(fmt.Sprintf("long%d zeros", k), d, plan, 0, false)
		}
		var wg sync.WaitGroup
		ch := make(chan int, 256)
		for w := 0; w < runtime.NumCPU(); w++ {
			wg.Add(1)
			go func() {
				defer wg.Done()
				for i := range ch {
					j := &jobs[i]
					runChunkJob(res, j, refs[string(j.data)])
					var sample interface{}
					if i%20011 == 0 {
						sample = map[string]interface{}{"name": j.name, "len": len(j.data)}
					}
					res.eval(j.name, len(j.plan) > 1 || j.dflt > 0, sample)
				}
			}()
		}
		for i := range jobs {
			ch <- i
		}
		close(ch)
		wg.Wait()
		if *traceOut != "" {
			if err := writeReaderTraces(*traceOut, rng, thorough, res); err != nil {
				return err
			}
		}
		return res.write(*c.out)
	})
}

// writeReaderTraces records junk-only runs under random schedules: every Read
// call (bytes returned, error, bytes the writer had received when it was
// issued) and every piece written. TLC validates them against Reader.tla with
// B = 16384 (spec/Trace_Reader.tla).
func writeReaderTraces(path string, rng *rand.Rand, thorough bool, res *Result) error {
	f, err := os.Create(path)
	if err != nil {
		return err
	}
	defer f.Close()
	enc := json.NewEncoder(f)
	n := 12
	if thorough {
		n = 60
	}
	for t := 0; t < n; t++ {
		// a junk-only stream: lines of assorted lengths, including over-long ones
		var d []byte
		var nl []int
		for len(d) < 20000+rng.Intn(80000) {
			L := 1 + rng.Intn(200)
			switch rng.Intn(12) {
			case 0:
				L = realBuf - 2 + rng.Intn(5)
			case 1:
				L = 2*realBuf - 1 + rng.Intn(3)
			case 2:
				L = 1
			}
			d = append(d, bytes.Repeat([]byte{'a' + byte(rng.Intn(26))}, L-1)...)
			d = append(d, '\n')
			nl = append(nl, len(d)-1)
		}
		unterminated := rng.Intn(3) == 0
		if unterminated {
			d = append(d, []byte("tail without newline")...)
		}
		final := error(nil)
		fin := "eof"
		if rng.Intn(3) == 0 {
			final = errInjected
			fin = "err"
		}
		var plan []int
		for left := len(d); left > 0; {
			k := 1 + rng.Intn(3000)
			switch rng.Intn(4) {
			case 0:
				k = 1 + rng.Intn(64)
			case 1:
				k = 1 + rng.Intn(3*realBuf)
			}
			if k > left {
				k = left
			}
			plan = append(plan, k)
			left -= k
			if rng.Intn(6) == 0 {
				for z := 1 + rng.Intn(98); z > 0; z-- {
					plan = append(plan, 0)
				}
			}
		}
		src := newSource(d, plan, 0, final, rng.Intn(2) == 0)
		src.keepLog = true
		w := &recWriter{}
		src.written = func() int { return w.buf.Len() }
		_, suffix, err, pan := scanOnce(src, w, &stack.Opts{})
		if pan != "" {
			res.violation(Finding{Property: "C03", Aspect: "panic", What: "reader trace run panicked: " + firstLine(pan)})
			continue
		}
		_ = enc.Encode(map[string]interface{}{"ev": "begin", "t": t, "N": len(d), "NL": nl, "fin": fin})
		for _, ev := range src.log {
			_ = enc.Encode(map[string]interface{}{"ev": "read", "n": ev.N, "err": ev.Err, "written": ev.Written, "offered": ev.Offered})
		}
		_ = enc.Encode(map[string]interface{}{"ev": "end", "written": w.buf.Len(), "pieces": len(w.pieces), "err": classify(err), "suffix": len(suffix)})
		res.count("reader_traces", 1)
		res.count("reader_trace_events", len(src.log)+2)
	}
	return nil
}
