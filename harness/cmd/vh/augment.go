package main

import (
	"bytes"
	"encoding/json"
	"fmt"
	"math"
	"math/rand"
	"os"
	"os/exec"
	"path/filepath"
	"reflect"
	"regexp"
	"runtime"
	"strconv"
	"strings"
	"sync"

	"github.com/maruel/panicparse/v2/stack"
)

// C19: replay of MC_Augment parameter lists: synthetic tracebacks against
// generated sources (all cases), real programs compiled with -gcflags '-N -l'
// and crashed (a seeded sample), and mismatching sources.

type augCase struct {
	raw    string
	Params []string `json:"params"`
	Words  int      `json:"words"`
}

type augParam struct {
	kind    string
	typ     string   // Go type as written in the source
	literal string   // Go expression passed by the generated program
	words   []uint64 // what the toolchain prints (synthetic route)
	want    string   // exact rendering, or "" when only a pattern is known (pointer-like kinds in the real route)
	pattern string   // regexp for the rendering
}

var goType = map[string]string{"ptr": "*T", "map": "map[string]int", "chan": "chan int", "chanrecv": "<-chan int", "chansend": "chan<- int", "func": "func()", "slice": "[]int", "iface": "error"}

func sizedInt(kind string) (bits int, signed bool) {
	switch kind {
	case "int8":
		return 8, true
	case "int16":
		return 16, true
	case "int32", "rune":
		return 32, true
	case "int64", "int":
		return 64, true
	case "uint8", "byte":
		return 8, false
	case "uint16":
		return 16, false
	case "uint32":
		return 32, false
	}
	return 64, false
}

func mkAugParam(kind string, rng *rand.Rand, n int) augParam {
	p := augParam{kind: kind, typ: kind}
	if t, ok := goType[kind]; ok {
		p.typ = t
	}
	ptr := uint64(0xc000010000 + 0x100*uint64(n) + uint64(rng.Intn(8))*8)
	hex := func(v uint64) string { return fmt.Sprintf("0x%x", v) }
	switch kind {
	case "bool":
		v := rng.Intn(2)
		p.words = []uint64{uint64(v)}
		p.want = strconv.FormatBool(v == 1)
		p.literal = p.want
	case "float32":
		f := []float32{0, 1, -2.5, 3.4028235e38, 1e-10}[rng.Intn(5)]
		p.words = []uint64{uint64(math.Float32bits(f))}
		p.want = strconv.FormatFloat(float64(f), 'g', -1, 32)
		p.literal = fmt.Sprintf("float32(%s)", strconv.FormatFloat(float64(f), 'g', -1, 32))
	case "float64":
		f := []float64{0, 1, -2.5, 2.5, 1.7976931348623157e308, 1e-300, 3.141592653589793, 0.1, 1.0 / 3, 1e300, 16777217, 5e-324}[rng.Intn(12)]
		p.words = []uint64{math.Float64bits(f)}
		p.want = strconv.FormatFloat(f, 'g', -1, 64)
		p.literal = fmt.Sprintf("float64(%s)", p.want)
	case "string":
		l := []int{0, 5, 23}[rng.Intn(3)]
		p.words = []uint64{ptr, uint64(l)}
		if l == 0 {
			p.words[0] = 0
		}
		p.want = fmt.Sprintf("string(%s, len=%d)", hex(p.words[0]), l)
		p.pattern = fmt.Sprintf(`^string\((0x[0-9a-f]+|#\d+), len=%d\)$`, l)
		p.literal = strconv.Quote(strings.Repeat("x", l))
	case "slice":
		l, c := 2, 4
		p.words = []uint64{ptr, uint64(l), uint64(c)}
		p.want = fmt.Sprintf("[]int(%s len=%d cap=%d)", hex(ptr), l, c)
		p.pattern = fmt.Sprintf(`^\[\]int\((0x[0-9a-f]+|#\d+) len=%d cap=%d\)$`, l, c)
		p.literal = "make([]int, 2, 4)"
	case "ptr", "map", "chan", "chanrecv", "chansend", "func":
		p.words = []uint64{ptr}
		// a directional channel is rendered like any channel: the direction is not part of the value
		shown := map[string]string{"ptr": "*T", "map": "map[string]int", "chan": "chan int", "chanrecv": "chan int", "chansend": "chan int", "func": "func"}[kind]
		p.want = fmt.Sprintf("%s(%s)", shown, hex(ptr))
		p.pattern = `^(<-)?` + regexp.QuoteMeta(shown) + `\((0x[0-9a-f]+|#\d+)\)$|^chan<- int\((0x[0-9a-f]+|#\d+)\)$`
		p.literal = map[string]string{"ptr": "&T{}", "map": "map[string]int{}", "chan": "make(chan int)", "chanrecv": "(<-chan int)(make(chan int))", "chansend": "(chan<- int)(make(chan int))", "func": "func() {}"}[kind]
	case "iface":
		p.words = []uint64{0x4b5a20, ptr}
		p.want = fmt.Sprintf("error{%s, %s}", hex(0x4b5a20), hex(ptr))
		p.pattern = `^error\{(0x[0-9a-f]+|#\d+), (0x[0-9a-f]+|#\d+)\}$`
		p.literal = `errors.New("e")`
	default: // integers
		bits, signed := sizedInt(kind)
		var v int64
		switch rng.Intn(6) {
		case 0:
			v = 0
		case 1:
			v = 1
		case 2:
			v = 42
		case 5: // the boundaries of the narrower widths: a wider kind does not wrap there
			if bits == 64 {
				v = []int64{127, 128, 255, 256, 32767, 32768, 65535, 65536, 2147483647, 2147483648, 3000000000, 4294967295, 4294967296, -128, -129, -32769, -2147483648, -2147483649}[rng.Intn(18)]
				if !signed && v < 0 {
					v = -v
				}
			} else if bits == 32 {
				v = []int64{127, 128, 255, 256, 32767, 32768, 65535, 65536}[rng.Intn(8)]
			} else {
				v = 100
			}
		case 3: // extreme
			if signed {
				v = -1 << (bits - 1)
			} else if bits == 64 {
				v = -1 // all ones
			} else {
				v = 1<<bits - 1
			}
		default: // a large value that looks like a pointer, or a negative one
			if signed {
				v = -2
				if bits == 64 {
					v = 1099511627776
				}
			} else {
				v = 200
				if bits == 64 {
					v = 1099511627776
				}
			}
		}
		mask := uint64(math.MaxUint64)
		if bits < 64 {
			mask = 1<<uint(bits) - 1
		}
		w := uint64(v) & mask
		p.words = []uint64{w}
		if signed {
			p.want = strconv.FormatInt(v, 10)
			p.literal = fmt.Sprintf("%s(%d)", kind, v)
		} else {
			p.want = strconv.FormatUint(w, 10)
			p.literal = fmt.Sprintf("%s(%d)", kind, w)
		}
	}
	if p.pattern == "" {
		p.pattern = "^" + regexp.QuoteMeta(p.want) + "$"
	}
	return p
}

func printWords(ps []augParam, recv bool) string {
	var parts []string
	if recv {
		parts = append(parts, "0xc000077000")
	}
	for _, p := range ps {
		if len(p.words) == 1 {
			parts = append(parts, fmt.Sprintf("0x%x", p.words[0]))
			continue
		}
		var w []string
		for _, x := range p.words {
			w = append(w, fmt.Sprintf("0x%x", x))
		}
		parts = append(parts, "{"+strings.Join(w, ", ")+"}")
	}
	return strings.Join(parts, ", ")
}

// genSource writes main.go; returns the line of the panic statement inside the callee.
func genSource(dir string, ps []augParam, recv bool, extraTop int, gopts ...string) (string, int) {
	recvDecl := "(t *T) "
	for _, o := range gopts {
		if o == "unnamed-recv" {
			recvDecl = "(*T) " // the receiver is passed (and printed) whether or not it has a name
		}
	}
	var sb strings.Builder
	sb.WriteString(strings.Repeat("\n", extraTop))
	sb.WriteString("package main\n\nimport \"errors\"\n\nvar _ = errors.New\n\ntype T struct{ x int }\n\n")
	var sig, call []string
	for i, p := range ps {
		sig = append(sig, fmt.Sprintf("p%d %s", i, p.typ))
		call = append(call, p.literal)
	}
	line := strings.Count(sb.String(), "\n") + 1
	if recv {
		fmt.Fprintf(&sb, "//go:noinline\nfunc %scallee(%s) {\n\tpanic(\"boom\")\n}\n\n", recvDecl, strings.Join(sig, ", "))
	} else {
		fmt.Fprintf(&sb, "//go:noinline\nfunc callee(%s) {\n\tpanic(\"boom\")\n}\n\n", strings.Join(sig, ", "))
	}
	panicLine := line + 2
	if recv {
		fmt.Fprintf(&sb, "func main() {\n\tt := &T{}\n\tt.callee(%s)\n}\n", strings.Join(call, ", "))
	} else {
		fmt.Fprintf(&sb, "func main() {\n\tcallee(%s)\n}\n", strings.Join(call, ", "))
	}
	_ = os.WriteFile(filepath.Join(dir, "main.go"), []byte(sb.String()), 0o644)
	return sb.String(), panicLine
}

func calleeCall(s *stack.Snapshot) *stack.Call {
	if s == nil {
		return nil
	}
	for _, g := range s.Goroutines {
		for i := range g.Stack.Calls {
			if strings.HasSuffix(g.Stack.Calls[i].Func.Name, "callee") {
				return &g.Stack.Calls[i]
			}
		}
	}
	return nil
}

func scanWith(dump string, opts *stack.Opts) (s *stack.Snapshot, pan string) {
	defer func() {
		if r := recover(); r != nil {
			pan = fmt.Sprint(r)
		}
	}()
	s, _, _ = stack.ScanSnapshot(strings.NewReader(dump), discard{}, opts)
	return
}

func judgeProcessed(res *Result, c *stack.Call, ps []augParam, recv bool, exact bool, what string, cs interface{}, dump string) {
	want := []string{}
	if recv {
		want = append(want, "")
	}
	for _, p := range ps {
		want = append(want, p.want)
	}
	got := c.Args.Processed
	mk := func(what2 string) Finding {
		return Finding{Property: "C19", Aspect: "rendering", What: what + ": " + what2, Case: cs, Input: []byte(dump), Expected: want, Observed: got}
	}
	if len(got) != len(want) {
		res.violation(mk(fmt.Sprintf("%d rendered arguments for %d parameters", len(got), len(want))))
		return
	}
	for i := range want {
		if recv && i == 0 {
			if !regexp.MustCompile(`^\*T\((0x[0-9a-f]+|#\d+)\)$`).MatchString(got[0]) {
				res.violation(mk("receiver rendered as " + got[0]))
				return
			}
			continue
		}
		p := ps[i-btoi(recv)]
		if exact && got[i] == p.want {
			continue
		}
		if !regexp.MustCompile(p.pattern).MatchString(got[i]) {
			res.violation(mk(fmt.Sprintf("parameter %d (%s) passed as %s is rendered as %q", i-btoi(recv), p.typ, p.literal, got[i])))
			return
		}
	}
}

func btoi(b bool) int {
	if b {
		return 1
	}
	return 0
}

// textOf renders every argument list the way the console does (Args.String).
func textOf(s *stack.Snapshot, a *stack.Aggregated) string {
	var sb strings.Builder
	if a != nil {
		for _, b := range a.Buckets {
			for i := range b.Stack.Calls {
				sb.WriteString(b.Stack.Calls[i].Args.String())
				sb.WriteString("\n")
			}
		}
		return sb.String()
	}
	for _, g := range s.Goroutines {
		for i := range g.Stack.Calls {
			sb.WriteString(g.Stack.Calls[i].Args.String())
			sb.WriteString("\n")
		}
	}
	return sb.String()
}

func immutAug(res *Result, dump string, idx int, cs interface{}) {
	opts := &stack.Opts{LocalGOROOT: runtime.GOROOT(), GuessPaths: true, AnalyzeSources: true, NameArguments: true}
	fresh, _ := scanWith(dump, opts)
	s, _ := scanWith(dump, opts)
	if fresh == nil || s == nil || len(s.Goroutines) != 2 {
		return
	}
	bad := func(step string) bool {
		if !reflect.DeepEqual(s.Goroutines, fresh.Goroutines) {
			res.violation(Finding{Property: "C14", Aspect: "mutated-augmented", What: fmt.Sprintf("augment case %d: after %s the snapshot (source analysis on) differs from a freshly parsed one", idx, step), Case: cs, Input: []byte(dump)})
			return true
		}
		return false
	}
	t0 := textOf(s, nil)
	if bad("rendering the arguments as text") {
		return
	}
	texts := map[stack.Similarity]string{}
	for _, lv := range []stack.Similarity{stack.AnyPointer, stack.ExactFlags, stack.AnyValue} {
		a := s.Aggregate(lv)
		texts[lv] = textOf(nil, a)
		if bad(fmt.Sprintf("aggregating at level %d and rendering the buckets as text", lv)) {
			return
		}
		var b bytes.Buffer
		_ = a.ToHTML(&b, "")
		if bad(fmt.Sprintf("rendering the aggregation at level %d as HTML", lv)) {
			return
		}
	}
	var b bytes.Buffer
	_ = s.ToHTML(&b, "")
	if bad("rendering the snapshot as HTML") {
		return
	}
	if t1 := textOf(s, nil); t1 != t0 {
		res.violation(Finding{Property: "C14", Aspect: "rerender-augmented", What: fmt.Sprintf("augment case %d: rendering the same snapshot's arguments a second time gives different text", idx), Case: cs, Input: []byte(dump), Expected: t0, Observed: t1})
		return
	}
	for lv, t := range texts {
		if t2 := textOf(nil, s.Aggregate(lv)); t2 != t {
			res.violation(Finding{Property: "C14", Aspect: "reaggregate-augmented", What: fmt.Sprintf("augment case %d: aggregating again at level %d renders differently", idx, lv), Case: cs, Input: []byte(dump), Expected: t, Observed: t2})
			return
		}
	}
	// several goroutines on the same snapshot: same text as alone (and no data race: the binary
	// of the C14 check is built with -race)
	var wg sync.WaitGroup
	out := make([]string, 4)
	for w := range out {
		wg.Add(1)
		go func(w int) {
			defer wg.Done()
			if w%2 == 0 {
				out[w] = textOf(s, nil)
			} else {
				out[w] = textOf(nil, s.Aggregate(stack.AnyPointer))
			}
		}(w)
	}
	wg.Wait()
	for w := range out {
		want := t0
		if w%2 == 1 {
			want = texts[stack.AnyPointer]
		}
		if out[w] != want {
			res.violation(Finding{Property: "C14", Aspect: "concurrent-augmented", What: fmt.Sprintf("augment case %d: rendering concurrently gives different text than alone", idx), Case: cs, Input: []byte(dump), Expected: want, Observed: out[w]})
			return
		}
	}
	bad("concurrent rendering and aggregation")
}

var immutOnly, cutOnly, auxOnly bool

// auxAug: what source analysis must leave alone. (C15) A slice parameter whose length and capacity
// are large enough to be classified as pointers and recur, next to a recurring pointer: with naming
// on, source analysis does not change which arguments are named, their names or their classification.
// (C16) An argument list the runtime truncated: the rendering keeps the "..." marker whether or not
// typed renderings are present.
func auxAug(res *Result, dir string, idx int, cs interface{}) {
	// a directory no earlier scan has looked at
	dir = filepath.Join(dir, "aux")
	_ = os.MkdirAll(dir, 0o755)
	_ = os.WriteFile(filepath.Join(dir, "go.mod"), []byte("module example.com/aux\n\ngo 1.20\n"), 0o644)
	src := "package main\n\n//go:noinline\nfunc callee(b []byte, p *int, q *int) {\n\tpanic(\"boom\")\n}\n\n//go:noinline\nfunc many(a, b, c, d, e, f, g, h, i, j, k int) {\n\tpanic(\"boom\")\n}\n"
	_ = os.WriteFile(filepath.Join(dir, "main.go"), []byte(src), 0o644)
	file := filepath.ToSlash(filepath.Join(dir, "main.go"))
	dump := fmt.Sprintf("goroutine 1 [running]:\nmain.callee({0xc000100000, 0x100000, 0x100000}, 0xc000012340, 0xc000012340)\n\t%s:5 +0x1d\nmain.many(0x1, 0x2, 0x3, 0x4, 0x5, 0x6, 0x7, 0x8, 0x9, 0xa, ...)\n\t%s:10 +0x1d\n\ngoroutine 2 [running]:\nmain.callee({0xc000100000, 0x100000, 0x100000}, 0xc000012348, 0xc000012340)\n\t%s:5 +0x1d\n", file, file, file)
	type lab struct {
		Name  string
		IsPtr bool
		Value uint64
	}
	labels := func(s *stack.Snapshot) []lab {
		var out []lab
		var walk func(a *stack.Args)
		walk = func(a *stack.Args) {
			for i := range a.Values {
				if a.Values[i].IsAggregate {
					walk(&a.Values[i].Fields)
				} else {
					out = append(out, lab{a.Values[i].Name, a.Values[i].IsPtr, a.Values[i].Value})
				}
			}
		}
		for _, g := range s.Goroutines {
			for i := range g.Stack.Calls {
				walk(&g.Stack.Calls[i].Args)
			}
		}
		return out
	}
	plain, _ := scanWith(dump, &stack.Opts{LocalGOROOT: runtime.GOROOT(), GuessPaths: true, NameArguments: true})
	aug, pan := scanWith(dump, &stack.Opts{LocalGOROOT: runtime.GOROOT(), GuessPaths: true, AnalyzeSources: true, NameArguments: true})
	if pan != "" || plain == nil || aug == nil || len(aug.Goroutines) != 2 {
		return
	}
	if len(aug.Goroutines[0].Stack.Calls[0].Args.Processed) == 0 {
		res.infra("aux case %d: the generated source was not used", idx)
		return
	}
	// naming off stays off, whatever else is on
	if unnamed, _ := scanWith(dump, &stack.Opts{LocalGOROOT: runtime.GOROOT(), GuessPaths: true, AnalyzeSources: true}); unnamed != nil {
		for _, l := range labels(unnamed) {
			if l.Name != "" {
				res.violation(Finding{Property: "C15", Aspect: "off-augmented", What: fmt.Sprintf("augment case %d: naming is off (source analysis on), yet the value 0x%x carries the pseudo-name %s", idx, l.Value, l.Name), Case: cs, Input: []byte(dump)})
				break
			}
		}
	}
	lp, la := labels(plain), labels(aug)
	if !reflect.DeepEqual(lp, la) {
		res.violation(Finding{Property: "C15", Aspect: "augment-labelling", What: fmt.Sprintf("augment case %d: with source analysis on, the names / classification of the arguments differ from those without it", idx), Case: cs, Input: []byte(dump), Expected: lp, Observed: la})
		res.violation(Finding{Property: "C19", Aspect: "values", What: fmt.Sprintf("augment case %d: source analysis changed the raw arguments (name / pointer classification)", idx), Case: cs, Input: []byte(dump), Expected: lp, Observed: la})
	}
	for _, l := range la {
		if l.Name != "" && !l.IsPtr {
			res.violation(Finding{Property: "C15", Aspect: "non-pointer-named", What: fmt.Sprintf("augment case %d: the value 0x%x carries the pseudo-name %s but is not classified as a pointer", idx, l.Value, l.Name), Case: cs, Input: []byte(dump)})
			break
		}
	}
	res.count("aux_labellings_checked", 1)
	// the truncation marker
	for _, s := range []*stack.Snapshot{plain, aug} {
		c := &s.Goroutines[0].Stack.Calls[1]
		if !c.Args.Elided {
			res.violation(Finding{Property: "C01", Aspect: "elided", What: "the truncated argument list is not marked as elided", Input: []byte(dump)})
			continue
		}
		if txt := c.Args.String(); !strings.HasSuffix(txt, "...") {
			res.violation(Finding{Property: "C16", Aspect: "args-elided-marker", What: fmt.Sprintf("augment case %d: an argument list the runtime truncated is rendered as %q, without the marker (typed renderings present: %v)", idx, txt, len(c.Args.Processed) != 0), Case: cs, Input: []byte(dump)})
			if len(c.Args.Processed) != 0 {
				res.violation(Finding{Property: "C19", Aspect: "args-elided-marker", What: fmt.Sprintf("augment case %d: with typed renderings the truncated argument list reads %q: the rendering presents the list as complete, which is not what the program passed", idx, txt), Case: cs, Input: []byte(dump)})
			}
		}
	}
	res.count("aux_elided_checked", 1)
	// a slice cut by the runtime right after its length ({ptr, len, ...}): no capacity was printed, none is shown;
	// and words printed flat (toolchains before 1.17): the page shows the typed renderings, nothing more
	src2 := "package main\n\nfunc cut(a, b, c, d, e, f, g, h int, s []int) {\n\tpanic(\"x\")\n}\n\nfunc describe(s string, n int) {\n\tpanic(\"x\")\n}\n"
	_ = os.WriteFile(filepath.Join(dir, "more.go"), []byte(src2), 0o644)
	file2 := filepath.ToSlash(filepath.Join(dir, "more.go"))
	dump2 := fmt.Sprintf("goroutine 1 [running]:\nmain.cut(0x1, 0x2, 0x3, 0x4, 0x5, 0x6, 0x7, 0x8, {0xc000100000, 0x2, ...})\n\t%s:4 +0x1d\nmain.describe(0x4b8f2a, 0x5, 0x7)\n\t%s:8 +0x1d\n", file2, file2)
	s2, pan2 := scanWith(dump2, &stack.Opts{LocalGOROOT: runtime.GOROOT(), GuessPaths: true, AnalyzeSources: true})
	if pan2 == "" && s2 != nil && len(s2.Goroutines) == 1 && len(s2.Goroutines[0].Stack.Calls) == 2 {
		c0, c1 := &s2.Goroutines[0].Stack.Calls[0], &s2.Goroutines[0].Stack.Calls[1]
		if n := len(c0.Args.Processed); n > 0 && regexp.MustCompile(`cap=\d`).MatchString(c0.Args.Processed[n-1]) {
			res.violation(Finding{Property: "C19", Aspect: "invented-capacity", What: fmt.Sprintf("augment case %d: the runtime cut the slice after its length, yet the rendering %q states a capacity", idx, c0.Args.Processed[n-1]), Case: cs, Input: []byte(dump2)})
		}
		if want := []string{"string(0x4b8f2a, len=5)", "7"}; len(c1.Args.Processed) != 0 {
			if !reflect.DeepEqual(c1.Args.Processed, want) {
				res.violation(Finding{Property: "C19", Aspect: "flat-words", What: fmt.Sprintf("augment case %d: words printed flat: describe(\"....\", 7) is rendered as %v", idx, c1.Args.Processed), Case: cs, Input: []byte(dump2), Expected: want, Observed: c1.Args.Processed})
			}
			var hb bytes.Buffer
			if s2.ToHTML(&hb, "") == nil {
				page := hb.String()
				if i := strings.Index(page, "describe</a></span>("); i >= 0 {
					seg := page[i+len("describe</a></span>("):]
					if j := strings.Index(seg, ")\n"); j >= 0 {
						seg = seg[:j]
					} else if j := strings.Index(seg, ")<"); j >= 0 {
						seg = seg[:j]
					}
					txt := strings.TrimSpace(regexp.MustCompile(`<[^>]*>`).ReplaceAllString(seg, ""))
					if k := strings.LastIndex(txt, ")"); k >= 0 && !strings.HasSuffix(txt, "len=5)") && !strings.HasSuffix(txt, "7") {
						txt = txt[:k]
					}
					if strings.Count(txt, ",") != 2 || !strings.Contains(txt, "len=5") || !strings.HasSuffix(strings.TrimSpace(txt), "7") {
						res.violation(Finding{Property: "C19", Aspect: "html-args", What: fmt.Sprintf("augment case %d: the page shows the arguments of describe as %q; the typed renderings are %v", idx, txt, want), Case: cs, Input: []byte(dump2)})
					}
				}
			}
		}
		res.count("aux_truncated_slice_checked", 1)
	}
	// a word the runtime could not print ("_"): the typed rendering shows it as not available, inside
	// an aggregate as well as alone; it never turns into a value, and the words around it keep theirs
	if idx%50 != 0 {
		return
	}
	src3 := "package main\n\ntype pair struct{ a, b int }\n\nfunc hold(p pair, n int) {\n\tpanic(\"x\")\n}\n\nfunc arr(a [3]int64, ok bool) {\n\tpanic(\"x\")\n}\n\nfunc lone(n int, m uint8) {\n\tpanic(\"x\")\n}\n"
	_ = os.WriteFile(filepath.Join(dir, "toolarge.go"), []byte(src3), 0o644)
	file3 := filepath.ToSlash(filepath.Join(dir, "toolarge.go"))
	dump3 := fmt.Sprintf("goroutine 1 [running]:\nmain.hold({0x11, _}, 0x5)\n\t%s:6 +0x1d\nmain.arr({_, 0x7, _}, 0x1)\n\t%s:10 +0x1d\nmain.lone(_, 0x9)\n\t%s:14 +0x1d\n", file3, file3, file3)
	s3, pan3 := scanWith(dump3, &stack.Opts{LocalGOROOT: runtime.GOROOT(), GuessPaths: true, AnalyzeSources: true})
	if pan3 == "" && s3 != nil && len(s3.Goroutines) == 1 && len(s3.Goroutines[0].Stack.Calls) == 3 {
		for ci, w := range []struct {
			unders int
			vals   []string
			second string
		}{{1, []string{"11"}, "5"}, {2, []string{"7"}, "true"}, {1, nil, "9"}} {
			pr := s3.Goroutines[0].Stack.Calls[ci].Args.Processed
			if len(pr) == 0 {
				continue // not augmented: nothing is claimed
			}
			bad := len(pr) != 2 || strings.Count(pr[0], "_") != w.unders || pr[1] != w.second
			for _, v := range w.vals {
				bad = bad || len(pr) == 0 || !strings.Contains(pr[0], v)
			}
			// digits other than the printed words' would be invented values
			if !bad {
				rest := pr[0]
				for _, v := range append([]string{"0x", "int64", "3"}, w.vals...) {
					rest = strings.ReplaceAll(rest, v, "")
				}
				bad = strings.ContainsAny(rest, "0123456789")
			}
			if bad {
				res.violation(Finding{Property: "C19", Aspect: "too-large", What: fmt.Sprintf("augment case %d: frame %d of a dump with words the runtime printed as \"_\" is rendered as %q: a word that was not available must stay \"_\" and the others keep their values", idx, ci, pr), Case: cs, Input: []byte(dump3), Observed: pr})
			}
			res.count("aux_toolarge_checked", 1)
		}
	}
}

// cutAug: C10 with path guessing and source analysis on. The stream is cut at every byte after
// the first goroutine (EOF and reader failure); the first goroutine lies entirely before the cut
// and must be what the uncut stream yields for it - typed renderings and local paths included.
func cutAug(res *Result, dump string, idx int, cs interface{}) {
	opts := &stack.Opts{LocalGOROOT: runtime.GOROOT(), GuessPaths: true, AnalyzeSources: true}
	full, _ := scanWith(dump, opts)
	if full == nil || len(full.Goroutines) != 2 || len(full.Goroutines[0].Stack.Calls[0].Args.Processed) == 0 {
		return
	}
	end1 := strings.Index(dump, "\ngoroutine 2 ")
	if end1 < 0 {
		return
	}
	for k := end1 + 1; k <= len(dump); k++ {
		for _, final := range []error{nil, errInjected} {
			src := newSource([]byte(dump[:k]), nil, 0, final, false)
			obs := runStream(src, opts, 6)
			res.count("augmented_cuts", 1)
			var gs []*stack.Goroutine
			for _, o := range obs {
				if o.Panic != "" {
					res.violation(Finding{Property: "C10", Aspect: "panic", What: fmt.Sprintf("augment case %d cut at byte %d: %s", idx, k, firstLine(o.Panic)), Case: cs, Input: []byte(dump[:k])})
					return
				}
				if o.Snap != nil && gs == nil {
					gs = o.Snap.Goroutines
				}
			}
			if len(gs) == 0 || !reflect.DeepEqual(gs[0], full.Goroutines[0]) {
				var got interface{}
				if len(gs) > 0 {
					got = map[string]interface{}{"processed": gs[0].Stack.Calls[0].Args.Processed, "local": gs[0].Stack.Calls[0].LocalSrcPath}
				}
				res.violation(Finding{Property: "C10", Aspect: "complete-goroutine-augmented", What: fmt.Sprintf("augment case %d cut at byte %d/%d (path guessing and source analysis on): goroutine 1 lies entirely before the cut but is missing or differs from the uncut result", idx, k, len(dump)),
					Case: cs, Input: []byte(dump[:k]), Expected: map[string]interface{}{"processed": full.Goroutines[0].Stack.Calls[0].Args.Processed, "local": full.Goroutines[0].Stack.Calls[0].LocalSrcPath}, Observed: got})
				return
			}
		}
	}
}

func checkAugCase(res *Result, ac *augCase, dir string, idx int, seed int64, realRun bool) {
	rng := rand.New(rand.NewSource(seed))
	var ps []augParam
	for i, k := range ac.Params {
		ps = append(ps, mkAugParam(k, rng, i))
	}
	// make a scalar value recur, so that pseudo-names would apply to it if they were (wrongly) used for scalars
	recv := rng.Intn(3) == 0
	var gopts []string
	if recv && rng.Intn(2) == 0 {
		gopts = append(gopts, "unnamed-recv")
	}
	_ = os.MkdirAll(dir, 0o755)
	_ = os.WriteFile(filepath.Join(dir, "go.mod"), []byte("module example.com/aug\n\ngo 1.20\n"), 0o644)
	_, pl := genSource(dir, ps, recv, 0, gopts...)
	fn := "main.callee"
	if recv {
		fn = "main.(*T).callee"
	}
	file := filepath.ToSlash(filepath.Join(dir, "main.go"))
	words := printWords(ps, recv)
	// the same values again in a second goroutine, so that every pointer-looking word recurs
	dump := fmt.Sprintf("goroutine 1 [running]:\n%s(%s)\n\t%s:%d +0x1d\nmain.main()\n\t%s:%d +0x2a\n\ngoroutine 2 [running]:\n%s(%s)\n\t%s:%d +0x1d\n", fn, words, file, pl, file, pl+5, fn, words, file, pl)
	cs := map[string]interface{}{"params": ac.Params, "receiver": recv, "words": words}
	for _, naming := range []bool{false, true} {
		opts := &stack.Opts{LocalGOROOT: runtime.GOROOT(), GuessPaths: true, AnalyzeSources: true, NameArguments: naming}
		s, pan := scanWith(dump, opts)
		if pan != "" {
			res.violation(Finding{Property: "C19", Aspect: "panic", What: "source analysis panicked: " + pan, Case: cs, Input: []byte(dump)})
			res.violation(Finding{Property: "C03", Aspect: "panic", What: "source analysis panicked: " + pan, Case: cs, Input: []byte(dump)})
			return
		}
		c := calleeCall(s)
		if c == nil {
			res.infra("augment case %d: callee frame not found", idx)
			return
		}
		if c.LocalSrcPath == "" {
			res.infra("augment case %d: the generated source was not located (%s)", idx, file)
			return
		}
		judgeProcessed(res, c, ps, recv, !naming, fmt.Sprintf("augment case %d naming=%v", idx, naming), cs, dump)
		// raw values untouched
		off, _ := scanWith(dump, &stack.Opts{LocalGOROOT: runtime.GOROOT(), GuessPaths: true, NameArguments: naming})
		if oc := calleeCall(off); oc == nil || !reflect.DeepEqual(oc.Args.Values, c.Args.Values) {
			res.violation(Finding{Property: "C19", Aspect: "values", What: fmt.Sprintf("augment case %d: source analysis changed the raw argument values", idx), Case: cs, Input: []byte(dump)})
			return
		}
	}
	// C12 with source analysis on: a bucket never presents a typed rendering that only some of
	// its members have. The second goroutine differs in one word (inside the aggregate of a
	// multi-word parameter when there is one).
	{
		ps2 := append([]augParam{}, ps...)
		k := 0
		for i, p := range ps2 {
			if len(p.words) > 1 {
				k = i
				break
			}
		}
		w2 := append([]uint64{}, ps2[k].words...)
		w2[len(w2)-1] += 3
		q := ps2[k]
		q.words = w2
		ps2[k] = q
		dump2 := fmt.Sprintf("goroutine 1 [running]:\n%s(%s)\n\t%s:%d +0x1d\n\ngoroutine 2 [running]:\n%s(%s)\n\t%s:%d +0x1d\n", fn, words, file, pl, fn, printWords(ps2, recv), file, pl)
		s2, _ := scanWith(dump2, &stack.Opts{LocalGOROOT: runtime.GOROOT(), GuessPaths: true, AnalyzeSources: true})
		if s2 != nil && len(s2.Goroutines) == 2 {
			for _, lv := range []stack.Similarity{stack.AnyPointer, stack.AnyValue} {
				a := s2.Aggregate(lv)
				for _, b := range a.Buckets {
					if len(b.IDs) != 2 || len(b.Stack.Calls) == 0 {
						continue
					}
					shown := b.Stack.Calls[0].Args.Processed
					if len(shown) == 0 {
						continue
					}
					for _, g := range s2.Goroutines {
						if !reflect.DeepEqual(g.Stack.Calls[0].Args.Processed, shown) {
							res.violation(Finding{Property: "C12", Aspect: "processed", What: fmt.Sprintf("augment case %d: the bucket presents the typed arguments %v as common, but goroutine %d has %v", idx, shown, g.ID, g.Stack.Calls[0].Args.Processed),
								Case: cs, Input: []byte(dump2), Expected: g.Stack.Calls[0].Args.Processed, Observed: shown})
							res.violation(Finding{Property: "C19", Aspect: "bucket-rendering", What: fmt.Sprintf("augment case %d: the typed rendering %v shown for a bucket is not what goroutine %d passed (%v)", idx, shown, g.ID, g.Stack.Calls[0].Args.Processed),
								Case: cs, Input: []byte(dump2), Expected: g.Stack.Calls[0].Args.Processed, Observed: shown})
							break
						}
					}
				}
			}
		}
	}
	// C14 with source analysis on: rendering and aggregating a snapshot that holds typed
	// renderings next to frames without any leaves it as a fresh scan gives it.
	{
		ps2 := append([]augParam{}, ps...)
		w2 := append([]uint64{}, ps2[0].words...)
		w2[0] += 8
		q := ps2[0]
		q.words = w2
		ps2[0] = q
		// a frame with a truncated argument list whose source is on disk too (many.go): its typed
		// rendering ends in the "..." marker
		_ = os.WriteFile(filepath.Join(dir, "many.go"), []byte("package main\n\nfunc many(a, b, c, d, e, f, g, h, i, j, k int) {\n\tpanic(\"x\")\n}\n"), 0o644)
		tail := fmt.Sprintf("main.many(0x1, 0x2, 0x3, 0x4, 0x5, 0x6, 0x7, 0x8, 0x9, 0xa, ...)\n\t%s:4 +0x1d\n", filepath.ToSlash(filepath.Join(dir, "many.go"))) +
			"other.fn(0x10, 0xc000123456)\n\t/nonexistent/x.go:7 +0x1d\n"
		dump3 := fmt.Sprintf("goroutine 1 [running]:\n%s(%s)\n\t%s:%d +0x1d\n%s\ngoroutine 2 [running]:\n%s(%s)\n\t%s:%d +0x1d\n%s", fn, words, file, pl, tail, fn, printWords(ps2, recv), file, pl, tail)
		if !cutOnly {
			immutAug(res, dump3, idx, cs)
		}
		if cutOnly {
			// a source in which cutting the digits of the line number lands in other functions: the frame's
			// function is declared on line 120, a function of another shape spans lines 10-19
			var sb strings.Builder
			sb.WriteString("package main\n\nimport \"errors\"\n\nvar _ = errors.New\n\ntype T struct{ x, y, z int }\n\n\n")
			sb.WriteString("func decoy(a int, b string, c T, d T, e T) int {\n" + strings.Repeat("\n", 8) + "\treturn a\n}\n")
			for strings.Count(sb.String(), "\n") < 119 {
				sb.WriteString("\n")
			}
			var sig []string
			for i, p := range ps {
				sig = append(sig, fmt.Sprintf("p%d %s", i, p.typ))
			}
			recvTxt := ""
			if recv {
				recvTxt = "(t *T) "
			}
			fmt.Fprintf(&sb, "func %scallee(%s) {\n\n\tpanic(\"boom\")\n}\n", recvTxt, strings.Join(sig, ", "))
			_ = os.WriteFile(filepath.Join(dir, "main.go"), []byte(sb.String()), 0o644)
			dump5 := fmt.Sprintf("goroutine 1 [running]:\n%s(%s)\n\t%s:122 +0x1d\n\ngoroutine 2 [running]:\n%s(%s)\n\t%s:122 +0x1d\n", fn, words, file, fn, printWords(ps2, recv), file)
			cutAug(res, dump5, idx, cs)
			genSource(dir, ps, recv, 0, gopts...)
			// every frame of the uncut dump is found on disk
			dump4 := fmt.Sprintf("goroutine 1 [running]:\n%s(%s)\n\t%s:%d +0x1d\n\ngoroutine 2 [running]:\n%s(%s)\n\t%s:%d +0x1d\nmain.main()\n\t%s:%d +0x2a\n", fn, words, file, pl, fn, printWords(ps2, recv), file, pl, file, pl+5)
			cutAug(res, dump4, idx, cs)
			cutAug(res, dump3, idx, cs)
		}
	}
	if !immutOnly && !cutOnly {
		auxAug(res, dir, idx, cs)
		genSource(dir, ps, recv, 0, gopts...)
	}
	if immutOnly || cutOnly || auxOnly {
		return
	}
	// mismatching sources: never a crash, a changed value or a changed frame
	base, _ := scanWith(dump, &stack.Opts{LocalGOROOT: runtime.GOROOT(), GuessPaths: true})
	for m := 0; m < 11; m++ {
		switch m {
		case 0:
			_ = os.Remove(filepath.Join(dir, "main.go"))
		case 1:
			_ = os.WriteFile(filepath.Join(dir, "main.go"), []byte("package main\n\nfunc callee( {\n"), 0o644)
		case 2:
			genSource(dir, ps, recv, 1+rng.Intn(30)) // lines shifted down
		case 3:
			if len(ps) > 1 {
				genSource(dir, ps[:len(ps)-1], recv, 0) // one parameter fewer
			} else {
				genSource(dir, append(append([]augParam{}, ps...), mkAugParam("int", rng, 9)), recv, 0)
			}
		case 4:
			var other []augParam
			for i := range ps {
				other = append(other, mkAugParam([]string{"string", "slice", "iface", "int8", "float64", "map"}[rng.Intn(6)], rng, i))
			}
			genSource(dir, other, recv, 0, gopts...) // other kinds
		case 8:
			// unparsable, but only from the frame's function on: a complete function of another shape stands in
			// front of it (on the line of the type declaration, so that no line moves)
			src, _ := genSource(dir, ps, recv, 0, gopts...)
			src = strings.Replace(src, "type T struct{ x int }\n", "type T struct{ x int }; func decoy(s string, ok bool, f float64) {}\n", 1)
			src = strings.Replace(src, "\nfunc ", "\nfnuc ", 1)
			src += "\nvar after int\n\ntype After struct{}\n" // declarations the parser can resynchronise on
			_ = os.WriteFile(filepath.Join(dir, "main.go"), []byte(src), 0o644)
		case 9, 10:
			// stale sources of another arity: scalars first, then interface types
			other := []augParam{mkAugParam("int", rng, 0), mkAugParam("iface", rng, 1)}
			if m == 10 {
				other = []augParam{mkAugParam("int", rng, 0), mkAugParam("int", rng, 1), mkAugParam("iface", rng, 2), mkAugParam("iface", rng, 3)}
			}
			genSource(dir, other, recv, 0, gopts...)
		case 6, 7:
			// a method with two receivers / an empty receiver list: not Go, but go/parser accepts it
			src, _ := genSource(dir, ps, false, 0, gopts...)
			recvTxt := "(t *T, u *T) "
			if m == 7 {
				recvTxt = "() "
			}
			src = strings.Replace(src, "func callee(", "func "+recvTxt+"callee(", 1)
			_ = os.WriteFile(filepath.Join(dir, "main.go"), []byte(src), 0o644)
		case 5:
			// declarations without bodies (assembly / linkname stubs) above the callee
			src, _ := genSource(dir, ps, recv, 0, gopts...)
			src = strings.Replace(src, "type T struct{ x int }\n", "type T struct{ x int }\n\nfunc nobody() int64\n\nfunc nobody2(x int)\n", 1)
			_ = os.WriteFile(filepath.Join(dir, "main.go"), []byte(src), 0o644)
		}
		s, pan := scanWith(dump, &stack.Opts{LocalGOROOT: runtime.GOROOT(), GuessPaths: true, AnalyzeSources: true})
		if pan != "" {
			res.violation(Finding{Property: "C19", Aspect: "mismatch-panic", What: fmt.Sprintf("sources that do not match the binary (variant %d) make source analysis panic: %s", m, pan), Case: cs, Input: []byte(dump)})
			res.violation(Finding{Property: "C03", Aspect: "panic", What: "source analysis panicked on mismatching sources: " + pan, Case: cs, Input: []byte(dump)})
			continue
		}
		if s == nil || base == nil || len(s.Goroutines) != len(base.Goroutines) {
			res.violation(Finding{Property: "C19", Aspect: "mismatch", What: fmt.Sprintf("mismatching sources (variant %d) changed the goroutines", m), Case: cs})
			continue
		}
		if m == 0 || m == 1 || m == 8 {
			// a source file that is missing or does not parse cannot be the source of any typed rendering
			if c := calleeCall(s); c != nil && len(c.Args.Processed) != 0 {
				what := map[int]string{0: "was removed", 1: "does not parse", 8: "does not parse from the frame's function on"}[m]
				res.violation(Finding{Property: "C19", Aspect: "mismatch-augmented", What: fmt.Sprintf("the source file %s, yet the frame's arguments are augmented: %v", what, c.Args.Processed), Case: cs, Input: []byte(dump), Observed: c.Args.Processed})
				if m == 0 {
					res.violation(Finding{Property: "C06", Aspect: "earlier-calls", What: fmt.Sprintf("the source file was removed, yet the frame's arguments are augmented as in the earlier scans of this process: %v", c.Args.Processed), Case: cs, Input: []byte(dump)})
				}
			}
		}
		for gi := range s.Goroutines {
			for ci := range s.Goroutines[gi].Stack.Calls {
				a, b := &s.Goroutines[gi].Stack.Calls[ci], &base.Goroutines[gi].Stack.Calls[ci]
				if !reflect.DeepEqual(a.Args.Values, b.Args.Values) || a.Func != b.Func || a.RemoteSrcPath != b.RemoteSrcPath || a.Line != b.Line {
					res.violation(Finding{Property: "C19", Aspect: "mismatch", What: fmt.Sprintf("mismatching sources (variant %d) changed a frame or its raw values", m), Case: cs})
				}
			}
		}
	}
	// line numbers that no file has - beyond the last line, 19 and 20 digits, beyond 2^63: the frame
	// keeps its raw values, nothing crashes
	genSource(dir, ps, recv, 0, gopts...)
	for _, ln := range []string{"99999", "9223372036854775807", "9223372036854775808", "9999999999999999999", "18446744073709551615", "18446744073709551616"} {
		dh := fmt.Sprintf("goroutine 1 [running]:\n%s(%s)\n\t%s:%s +0x1d\n", fn, words, file, ln)
		s, pan := scanWith(dh, &stack.Opts{LocalGOROOT: runtime.GOROOT(), GuessPaths: true, AnalyzeSources: true})
		if pan != "" {
			res.violation(Finding{Property: "C19", Aspect: "mismatch-panic", What: fmt.Sprintf("a frame with line number %s (no such line in the source found on disk) makes source analysis panic: %s", ln, pan), Case: cs, Input: []byte(dh)})
			res.violation(Finding{Property: "C03", Aspect: "panic", What: "source analysis panicked on a line number beyond the file: " + pan, Case: cs, Input: []byte(dh)})
			continue
		}
		b, _ := scanWith(dh, &stack.Opts{LocalGOROOT: runtime.GOROOT(), GuessPaths: true})
		if (s == nil) != (b == nil) || (s != nil && len(s.Goroutines) == 1 && len(b.Goroutines) == 1 && len(s.Goroutines[0].Stack.Calls) > 0 && len(b.Goroutines[0].Stack.Calls) > 0 &&
			!reflect.DeepEqual(s.Goroutines[0].Stack.Calls[0].Args.Values, b.Goroutines[0].Stack.Calls[0].Args.Values)) {
			res.violation(Finding{Property: "C19", Aspect: "mismatch", What: fmt.Sprintf("a frame with line number %s: source analysis changed the raw values or the outcome of the scan", ln), Case: cs, Input: []byte(dh)})
		}
	}
	if realRun {
		realAugRun(res, ps, recv, dir, idx, cs, gopts)
	}
}

var reWordLine = regexp.MustCompile(`(?m)^main\.(?:\(\*T\)\.)?callee\((.*)\)$`)

// realAugRun compiles and crashes the generated program and feeds its real traceback back.
func realAugRun(res *Result, ps []augParam, recv bool, dir string, idx int, cs interface{}, gopts []string) {
	genSource(dir, ps, recv, 0, gopts...)
	env := append(os.Environ(), "GOFLAGS=-mod=mod", "GOPROXY=off", "GOSUMDB=off", "GOTOOLCHAIN=local", "GOTRACEBACK=all", "GO111MODULE=on")
	bin := filepath.Join(dir, "prog")
	cmd := exec.Command("go", "build", "-gcflags", "-N -l", "-o", bin, ".")
	cmd.Dir = dir
	cmd.Env = env
	if out, err := cmd.CombinedOutput(); err != nil {
		res.infra("generated program %d does not build: %v: %s", idx, err, firstLine(string(out)))
		return
	}
	run := exec.Command(bin)
	run.Env = env
	var stderr bytes.Buffer
	run.Stderr = &stderr
	_ = run.Run()
	_ = os.Remove(bin)
	tb := stderr.String()
	m := reWordLine.FindStringSubmatch(tb)
	if m == nil {
		res.infra("generated program %d: no callee frame in its traceback: %s", idx, firstLine(tb))
		return
	}
	// producer model vs toolchain: the shape of the printed words (aggregates per multi-word kind)
	shape := func(s string) string {
		return regexp.MustCompile(`0x[0-9a-f]+\??`).ReplaceAllString(s, "w")
	}
	if shape(m[1]) != shape(printWords(ps, recv)) {
		res.count("toolchain_layout_differs", 1)
		res.infra("the toolchain prints %q for parameters %v; the producer model prints %q: the model of the argument layout is wrong for this toolchain", m[1], cs, printWords(ps, recv))
		return
	}
	for _, naming := range []bool{false, true} {
		s, pan := scanWith(tb, &stack.Opts{LocalGOROOT: runtime.GOROOT(), GuessPaths: true, AnalyzeSources: true, NameArguments: naming})
		if pan != "" {
			res.violation(Finding{Property: "C19", Aspect: "panic", What: "source analysis panicked on a real traceback: " + pan, Case: cs, Input: []byte(tb)})
			return
		}
		c := calleeCall(s)
		if c == nil || c.LocalSrcPath == "" {
			res.infra("generated program %d: callee frame not located in the real traceback", idx)
			return
		}
		judgeProcessed(res, c, ps, recv, false, fmt.Sprintf("real program %d naming=%v", idx, naming), cs, tb)
	}
	res.count("programs_compiled_and_crashed", 1)
}

func init() {
	register("augment", "C19: replay MC_Augment parameter lists on generated sources, real compiled programs and mismatching sources", func(args []string) error {
		c := newCommon("augment")
		programs := c.fs.Int("programs", 40, "how many cases are also compiled with the toolchain and crashed")
		c.fs.BoolVar(&immutOnly, "immut", false, "only the C14 part: immutability of snapshots that hold typed renderings")
		c.fs.BoolVar(&cutOnly, "cut", false, "only the C10 part: cuts of a dump whose sources are on disk")
		c.fs.BoolVar(&auxOnly, "aux", false, "only what source analysis must leave alone (C15 labelling, C16 truncation marker)")
		_ = c.fs.Parse(args)
		if immutOnly || cutOnly || auxOnly {
			*programs = 0
		}
		res := newResult("one case = a parameter list over the supported kinds (from MC_Augment) with seeded values incl. negative, extreme and pointer-looking ones, optionally on a pointer-receiver method: a synthetic traceback in the toolchain's word layout against generated sources (naming off and on), six kinds of mismatching sources, and for a seeded sample the real traceback of the compiled (-gcflags '-N -l') and crashed program; non-trivial = at least two parameters")
		var cases []augCase
		err := scanTLC(*c.in, func(tag string, js []byte) error {
			if tag == "CASE" {
				var ac augCase
				if err := json.Unmarshal(js, &ac); err != nil {
					return err
				}
				ac.raw = string(js)
				cases = append(cases, ac)
			}
			return nil
		})
		if err != nil {
			return err
		}
		if len(cases) == 0 {
			res.infra("no cases")
			return res.write(*c.out)
		}
		sortByKey(len(cases), func(i int) string { return cases[i].raw }, func(i, j int) { cases[i], cases[j] = cases[j], cases[i] })
		rng := rand.New(rand.NewSource(*c.seed))
		rng.Shuffle(len(cases), func(i, j int) { cases[i], cases[j] = cases[j], cases[i] })
		if *c.limit > 0 && len(cases) > *c.limit {
			cases = cases[:*c.limit]
		}
		root, err := os.MkdirTemp("", "vh-aug-")
		if err != nil {
			return err
		}
		defer os.RemoveAll(root)
		var wg sync.WaitGroup
		ch := make(chan int, 64)
		for w := 0; w < runtime.NumCPU(); w++ {
			wg.Add(1)
			go func(w int) {
				defer wg.Done()
				for i := range ch {
					dir := filepath.Join(root, fmt.Sprintf("w%d_%d", w, i))
					checkAugCase(res, &cases[i], dir, i, *c.seed*104729+int64(i), i < *programs)
					_ = os.RemoveAll(dir)
					res.eval(cases[i].raw, len(cases[i].Params) >= 2, sampleEvery(i, 1999, cases[i]))
				}
			}(w)
		}
		for i := range cases {
			ch <- i
		}
		close(ch)
		wg.Wait()
		return res.write(*c.out)
	})
}
