package main

import (
	"bytes"
	"context"
	"encoding/json"
	"fmt"
	"math/rand"
	"os"
	"os/exec"
	"runtime"
	"strings"
	"sync"
	"time"
)

// End-to-end checks on the pp binary built from /repo/cmd/pp: when it exits 0
// its output is its input with each dump replaced by its rendering (C02), it
// never panics or hangs (C03). The stream structure (which lines are
// forwarded, which form a dump, where each scan ends) is Pipeline.tla's
// prediction for the stream; the rendering of each dump is pp's own output on
// that dump alone.

type ppRunner struct {
	bin   string
	mu    sync.Mutex
	cache map[string]ppOut
	env   []string
}

type ppOut struct {
	stdout, stderr []byte
	code           int
	timedOut       bool
}

func (r *ppRunner) run(in []byte, args ...string) ppOut {
	ctx, cancel := context.WithTimeout(context.Background(), 20*time.Second)
	defer cancel()
	cmd := exec.CommandContext(ctx, r.bin, append([]string{"-rebase=false"}, args...)...)
	cmd.Env = r.env
	cmd.Stdin = bytes.NewReader(in)
	var so, se bytes.Buffer
	cmd.Stdout, cmd.Stderr = &so, &se
	err := cmd.Run()
	o := ppOut{stdout: so.Bytes(), stderr: se.Bytes()}
	if ctx.Err() != nil {
		o.timedOut = true
	}
	if err != nil {
		if ee, ok := err.(*exec.ExitError); ok {
			o.code = ee.ExitCode()
		} else {
			o.code = -1
		}
	}
	return o
}

// runFull runs pp with its standard output on /dev/full: every write to it fails.
func (r *ppRunner) runFull(in []byte, args ...string) (ppOut, bool) {
	f, err := os.OpenFile("/dev/full", os.O_WRONLY, 0)
	if err != nil {
		return ppOut{}, false
	}
	defer f.Close()
	ctx, cancel := context.WithTimeout(context.Background(), 20*time.Second)
	defer cancel()
	cmd := exec.CommandContext(ctx, r.bin, append([]string{"-rebase=false"}, args...)...)
	cmd.Env = r.env
	cmd.Stdin = bytes.NewReader(in)
	var se bytes.Buffer
	cmd.Stdout, cmd.Stderr = f, &se
	err = cmd.Run()
	o := ppOut{stderr: se.Bytes(), timedOut: ctx.Err() != nil}
	if err != nil {
		o.code = -1
		if ee, ok := err.(*exec.ExitError); ok {
			o.code = ee.ExitCode()
		}
	}
	return o, true
}

// checkPPLost: exit status 0 promises that the output is the input with each dump replaced by its
// rendering.  When the place the output (or the -html page) goes to takes no bytes, nothing of that
// was delivered, so pp must not exit 0 - wherever the dump stands, the end of the input included.
func checkPPLost(res *Result, r *ppRunner, data []byte, calls []specCall, cs interface{}, tag string) {
	if o, ok := r.runFull(data); ok && !o.timedOut {
		res.count("pp_lost_output_runs", 1)
		if o.code == 0 {
			res.violation(Finding{Property: "C02", Aspect: "pp-lost-output", What: tag + ": pp exits 0 although none of its output could be written (standard output on /dev/full)", Case: cs, Input: data, Observed: string(o.stderr)})
		}
	}
	dumps := 0
	for _, c := range calls {
		if len(c.Snap) != 0 {
			dumps++
		}
	}
	if dumps == 0 {
		return
	}
	o := r.run(data, "-html", "/dev/full")
	if _, err := os.Stat("/dev/full"); err != nil || o.timedOut {
		return
	}
	res.count("pp_lost_page_runs", 1)
	if o.code == 0 {
		res.violation(Finding{Property: "C02", Aspect: "pp-lost-page", What: tag + ": pp -html exits 0 although the page replacing the dump could not be written (/dev/full)", Case: cs, Input: data, Observed: string(o.stderr)})
	}
}

func (r *ppRunner) render(dump []byte) ppOut {
	k := string(dump)
	r.mu.Lock()
	if o, ok := r.cache[k]; ok {
		r.mu.Unlock()
		return o
	}
	r.mu.Unlock()
	o := r.run(dump)
	r.mu.Lock()
	r.cache[k] = o
	r.mu.Unlock()
	return o
}

func crashed(o ppOut) string {
	if o.timedOut {
		return "no exit within 20 s"
	}
	// pp reports errors with "Failed: ..." and exit status 1 (its message may quote input lines);
	// a Go runtime panic or fatal error ends the process with status 2.
	if o.code != 0 && o.code != 1 {
		return fmt.Sprintf("exit status %d: %s", o.code, firstLine(string(o.stderr)))
	}
	return ""
}

// ppWant turns the specification's items into bytes: a line item is that line of the input, a
// render item is pp's own output on the lines of that call's dump alone. k1 / k2 apply the named
// deviations of the code (held race-header lines discarded; an unterminated fragment written by the
// scan instead of being handed back, i.e. in front of the rendering instead of after it).
func ppWant(r *ppRunner, lines [][]byte, calls []specCall, pp *ppSpec, k1, k2 bool) ([]byte, bool) {
	dropped := map[int]bool{}
	early := map[int]bool{}
	for i := range calls {
		if k1 {
			for _, k := range calls[i].K1 {
				dropped[k] = true
			}
		}
		if k2 && calls[i].K2 != 0 {
			early[calls[i].K2] = true
		}
	}
	var want []byte
	for j, it := range pp.Items {
		switch it.K {
		case "line":
			if dropped[it.I] || early[it.I] {
				continue
			}
			want = append(want, lines[it.I-1]...)
		case "render":
			// fragments the scan wrote itself come out before the rendering of the same call
			for _, later := range pp.Items[j+1:] {
				if later.K == "line" && later.C == it.C && early[later.I] {
					want = append(want, lines[later.I-1]...)
				}
			}
			ro := r.render(cat(lines, calls[it.I-1].Cons))
			if crashed(ro) != "" || ro.code != 0 {
				return nil, false
			}
			want = append(want, ro.stdout...)
		}
	}
	return want, true
}

// checkPP judges one stream given as concrete lines and the specification's calls.
func checkPP(res *Result, r *ppRunner, lines [][]byte, calls []specCall, pp *ppSpec, cs interface{}, tag string) {
	var data []byte
	for _, l := range lines {
		data = append(data, l...)
	}
	o := r.run(data)
	if c := crashed(o); c != "" {
		res.violation(Finding{Property: "C03", Aspect: "pp", What: tag + ": pp " + c, Case: cs, Input: data, Observed: string(o.stderr)})
		return
	}
	if !pp.Determined {
		res.count("pp_streams_with_parse_error", 1)
		return
	}
	if o.code != pp.Status {
		res.violation(Finding{Property: "C02", Aspect: "pp-exit", What: fmt.Sprintf("%s: the specification predicts exit status %d but pp exits %d: %s", tag, pp.Status, o.code, firstLine(string(o.stderr))), Case: cs, Input: data})
		return
	}
	var want0 []byte
	for _, v := range [][2]bool{{false, false}, {true, false}, {true, true}, {false, true}} {
		want, ok := ppWant(r, lines, calls, pp, v[0], v[1])
		if !ok {
			res.count("pp_render_alone_failed", 1)
			return
		}
		if want0 == nil {
			want0 = want
		}
		if bytes.Equal(want, o.stdout) {
			if pp.Status == 0 && len(o.stdout) != 0 && (len(data)+len(lines))%3 == 0 {
				checkPPLost(res, r, data, calls, cs, tag)
			}
			if v[0] {
				for _, c := range calls {
					if len(c.K1) != 0 {
						res.known(Finding{Property: "C02", Known: "K1", Aspect: "pp", What: tag + ": pp drops tentatively held race header lines", Case: cs, Input: data})
						break
					}
				}
			}
			return
		}
	}
	res.violation(Finding{Property: "C02", Aspect: "pp-output", What: tag + ": pp exits 0 but its output is not its input with each dump replaced by its rendering", Case: cs, Input: data,
		Expected: string(want0), Observed: string(o.stdout)})
}

func init() {
	register("pp", "end-to-end replay of MC_Pipe / MC_Print streams through the pp binary", func(args []string) error {
		c := newCommon("pp")
		bin := c.fs.String("pp", "", "path of the pp binary built from /repo")
		gotb := c.fs.String("gotraceback", "all", "GOTRACEBACK in pp's environment ('' = unset: pp then adds its hint to single-goroutine dumps)")
		_ = c.fs.Parse(args)
		res := newResult("one case = one stream (from MC_Pipe's alphabet or a printed dump / race report of MC_Print) piped through the pp binary; expected stdout = pass-through pieces as Pipeline.tla predicts + pp's own rendering of each dump alone; non-trivial = the stream holds at least one dump")
		if *bin == "" {
			res.infra("no -pp binary")
			return res.write(*c.out)
		}
		env := append(os.Environ(), "TERM=dumb")
		if *gotb != "" {
			env = append(env, "GOTRACEBACK="+*gotb)
		} else {
			var e2 []string
			for _, kv := range env {
				if !strings.HasPrefix(kv, "GOTRACEBACK=") {
					e2 = append(e2, kv)
				}
			}
			env = e2
		}
		r := &ppRunner{bin: *bin, cache: map[string]ppOut{}, env: env}
		var alpha []absLine
		var pipes []pipeCase
		var prints []printCase
		err := scanTLC(*c.in, func(tag string, js []byte) error {
			switch tag {
			case "UNIV":
				var u struct {
					Alpha []absLine `json:"alpha"`
				}
				if json.Unmarshal(js, &u) == nil && len(u.Alpha) > 0 {
					alpha = u.Alpha
				}
			case "CASE":
				if strings.Contains(string(js[:20]), `"inp"`) || bytes.Contains(js, []byte(`"inp":`)) {
					var pc pipeCase
					if err := json.Unmarshal(js, &pc); err != nil {
						return err
					}
					pc.raw = string(js)
					pipes = append(pipes, pc)
				} else {
					var pc printCase
					if err := json.Unmarshal(js, &pc); err != nil {
						return err
					}
					pc.raw = string(js)
					prints = append(prints, pc)
				}
			}
			return nil
		})
		if err != nil {
			return err
		}
		sortByKey(len(pipes), func(i int) string { return pipes[i].raw }, func(i, j int) { pipes[i], pipes[j] = pipes[j], pipes[i] })
		sortByKey(len(prints), func(i int) string { return prints[i].raw }, func(i, j int) { prints[i], prints[j] = prints[j], prints[i] })
		rng := rand.New(rand.NewSource(*c.seed))
		if *c.limit > 0 {
			// prefer streams that hold a dump
			var withDump []pipeCase
			for _, p := range pipes {
				for _, cl := range p.Calls {
					if len(cl.Snap) != 0 {
						withDump = append(withDump, p)
						break
					}
				}
			}
			rng.Shuffle(len(withDump), func(i, j int) { withDump[i], withDump[j] = withDump[j], withDump[i] })
			// half of the sample: streams whose last call hands something back at EOF (an
			// unterminated last line, lines still held) - the rarely taken exits of the pp loop
			var tails, others []pipeCase
			for _, p := range withDump {
				if len(p.Calls[len(p.Calls)-1].Tail) != 0 {
					tails = append(tails, p)
				} else {
					others = append(others, p)
				}
			}
			if len(tails) > *c.limit/2 {
				tails = tails[:*c.limit/2]
			}
			if len(others) > *c.limit-len(tails) {
				others = others[:*c.limit-len(tails)]
			}
			pipes = append(tails, others...)
			// four fifths of the sample: dumps / reports without a predicted parse error (the conservation
			// claim needs exit status 0); the rest only has to leave pp alive
			clean := cleanPrints(prints)
			isClean := map[string]bool{}
			for _, p := range clean {
				isClean[p.raw] = true
			}
			var faulty []printCase
			for _, p := range prints {
				if !isClean[p.raw] {
					faulty = append(faulty, p)
				}
			}
			rng.Shuffle(len(clean), func(i, j int) { clean[i], clean[j] = clean[j], clean[i] })
			rng.Shuffle(len(faulty), func(i, j int) { faulty[i], faulty[j] = faulty[j], faulty[i] })
			if len(faulty) > *c.limit/5 {
				faulty = faulty[:*c.limit/5]
			}
			if len(clean) > *c.limit-len(faulty) {
				clean = clean[:*c.limit-len(faulty)]
			}
			prints = append(clean, faulty...)
		}
		if len(pipes)+len(prints) == 0 {
			res.infra("no cases")
			return res.write(*c.out)
		}
		type job struct {
			pipe  *pipeCase
			print *printCase
			i     int
		}
		var wg sync.WaitGroup
		ch := make(chan job, 64)
		for w := 0; w < runtime.NumCPU(); w++ {
			wg.Add(1)
			go func() {
				defer wg.Done()
				for j := range ch {
					jr := rand.New(rand.NewSource(*c.seed*4099 + int64(j.i)))
					if j.pipe != nil {
						pc := j.pipe
						lines := make([][]byte, len(pc.Inp))
						for i, k := range pc.Inp {
							eol := "lf"
							if i == len(pc.Inp)-1 {
								eol = pc.Eol
							}
							lines[i] = renderLine(&alpha[k-1], eol, jr, false)
						}
						checkPP(res, r, lines, pc.Calls, &pc.PP, pc, fmt.Sprintf("pipe case %d", j.i))
						res.eval(pc.raw, true, sampleEvery(j.i, 499, pc))
					} else {
						pc := j.print
						p := &printer{lx: newLexicon(jr, nil), created: map[string]string{}}
						lines := make([][]byte, len(pc.Lines))
						for i := range pc.Lines {
							lines[i] = p.render(i, &pc.Lines[i], jr.Intn(4) == 0 && false)
						}
						checkPP(res, r, lines, pc.Calls, &pc.PP, map[string]interface{}{"mode": pc.Mode, "lines": len(pc.Lines)}, fmt.Sprintf("print case %d", j.i))
						res.eval(pc.raw, true, nil)
						// two dumps in one stream: each is rendered as it is rendered alone, wherever it stands.
						// (The first must end in complete lines and leave nothing behind: no parse error, last
						// line terminated.)
						if pc.PP.Determined && len(lines) > 0 && bytes.HasSuffix(lines[len(lines)-1], []byte("\n")) && j.i+1 < len(prints) {
							pb := &prints[(j.i+1)%len(prints)]
							if pb.PP.Determined {
								p2 := &printer{lx: newLexicon(jr, nil), created: map[string]string{}}
								var a, b []byte
								for _, l := range lines {
									a = append(a, l...)
								}
								a = append(a, "some text between two dumps\n"...)
								for i := range pb.Lines {
									b = append(b, p2.render(i, &pb.Lines[i], false)...)
								}
								oa, ob, oab := r.run(a), r.run(b), r.run(append(append([]byte{}, a...), b...))
								if oa.code == 0 && ob.code == 0 && crashed(oab) == "" && (oab.code != 0 || !bytes.Equal(oab.stdout, append(append([]byte{}, oa.stdout...), ob.stdout...))) {
									res.violation(Finding{Property: "C02", Aspect: "pp-two-dumps", What: fmt.Sprintf("print cases %d and %d in one stream: pp's output is not the concatenation of its outputs on the two parts (a dump is rendered differently depending on what came before it)", j.i, (j.i+1)%len(prints)),
										Input: append(append([]byte{}, a...), b...), Expected: string(oa.stdout) + string(ob.stdout), Observed: string(oab.stdout)})
									res.violation(Finding{Property: "C06", Aspect: "earlier-dumps", What: fmt.Sprintf("print cases %d and %d in one stream: the rendering of the second dump depends on the first having been processed earlier in the same run", j.i, (j.i+1)%len(prints)), Input: append(append([]byte{}, a...), b...)})
								}
								res.count("two_dump_streams", 1)
							}
						}
					}
				}
			}()
		}
		for i := range pipes {
			ch <- job{pipe: &pipes[i], i: i}
		}
		for i := range prints {
			ch <- job{print: &prints[i], i: i}
		}
		close(ch)
		wg.Wait()
		return res.write(*c.out)
	})
}
