package main

import (
	"bufio"
	"encoding/json"
	"fmt"
	"os"
	"sort"
	"strings"
)

// scanTLC reads TLC's standard output and calls fn for every line that TLC
// printed with PrintT("<TAG> " \o json): tag and the decoded JSON text.
func scanTLC(path string, fn func(tag string, js []byte) error) error {
	f, err := os.Open(path)
	if err != nil {
		return err
	}
	defer f.Close()
	sc := bufio.NewScanner(f)
	sc.Buffer(make([]byte, 1<<20), 1<<28)
	for sc.Scan() {
		line := sc.Bytes()
		if len(line) < 4 || line[0] != '"' {
			continue
		}
		// TLC prints a string value as a quoted literal with \" and \\ escapes.
		var s string
		if err := json.Unmarshal(line, &s); err != nil {
			// Fall back to manual unescape.
			t := string(line)
			t = strings.TrimSuffix(strings.TrimPrefix(t, "\""), "\"")
			t = strings.ReplaceAll(t, "\\\"", "\"")
			t = strings.ReplaceAll(t, "\\\\", "\\")
			s = t
		}
		i := strings.IndexByte(s, ' ')
		if i <= 0 {
			continue
		}
		tag := s[:i]
		switch tag {
		case "CASE", "UNIV", "TRANS", "STAT":
		default:
			continue
		}
		if err := fn(tag, []byte(s[i+1:])); err != nil {
			return fmt.Errorf("%s line: %w", tag, err)
		}
	}
	return sc.Err()
}

// sortByKey sorts n items by their key so that the order of the cases does not
// depend on the order in which TLC's workers happened to print them.
func sortByKey(n int, key func(i int) string, swap func(i, j int)) {
	sort.Sort(&keySorter{n: n, key: key, swap: swap})
}

type keySorter struct {
	n    int
	key  func(i int) string
	swap func(i, j int)
}

func (k *keySorter) Len() int           { return k.n }
func (k *keySorter) Less(i, j int) bool { return k.key(i) < k.key(j) }
func (k *keySorter) Swap(i, j int)      { k.swap(i, j) }
