package main

import (
	"bytes"
	"encoding/json"
	"fmt"
	"math/rand"
	"reflect"
	"runtime"
	"strings"
	"sync"

	"github.com/maruel/panicparse/v2/stack"
)

// C14: replay of MC_Hist's call histories (sequentially) and worker programs
// (concurrently, in a binary built with -race) on parsed snapshots that merge.

type histCase struct {
	raw  string
	Kind string     `json:"kind"`
	Snap int        `json:"snap"`
	Hist []string   `json:"hist"`
	Prog [][]string `json:"prog"`
}

type histUniv struct {
	U       []absSig             `json:"U"`
	Snaps   [][]int              `json:"snaps"`
	Answers []map[string][][]int `json:"answers"`
}

func dumpOf(u *histUniv, sv int) string {
	var sb strings.Builder
	for p, x := range u.Snaps[sv-1] {
		if p > 0 {
			sb.WriteString("\n")
		}
		printSig(&sb, p+1, &u.U[x-1])
	}
	return sb.String()
}

func parseDump(d string, opts *stack.Opts) *stack.Snapshot {
	s, _, _ := stack.ScanSnapshot(strings.NewReader(d), discard{}, opts)
	return s
}

func bucketIDs(a *stack.Aggregated) [][]int {
	out := [][]int{}
	for _, b := range a.Buckets {
		out = append(out, append([]int{}, b.IDs...))
	}
	return out
}

var opLevel = map[string]stack.Similarity{"EF": stack.ExactFlags, "EL": stack.ExactLines, "AP": stack.AnyPointer, "AV": stack.AnyValue}

// doOp performs one operation and returns a description of a wrong answer ("" if right).
func doOp(op string, s *stack.Snapshot, dump string, opts *stack.Opts, ans map[string][][]int, fresh *stack.Snapshot) string {
	switch op {
	case "EF", "EL", "AP", "AV":
		got := bucketIDs(s.Aggregate(opLevel[op]))
		if !reflect.DeepEqual(got, ans[op]) {
			return fmt.Sprintf("%s: buckets %v, the specification (and a fresh snapshot) give %v", op, got, ans[op])
		}
	case "HA":
		var b bytes.Buffer
		if err := s.Aggregate(stack.AnyPointer).ToHTML(&b, ""); err != nil || b.Len() == 0 {
			return fmt.Sprintf("HA: ToHTML failed: %v", err)
		}
	case "HS":
		var b bytes.Buffer
		if err := s.ToHTML(&b, ""); err != nil || b.Len() == 0 {
			return fmt.Sprintf("HS: ToHTML failed: %v", err)
		}
	case "SC":
		n := parseDump(dump, opts)
		if n == nil || !reflect.DeepEqual(n.Goroutines, fresh.Goroutines) {
			return "SC: scanning the same dump again gives a different snapshot"
		}
	}
	return ""
}

func init() {
	register("hist", "C14: replay MC_Hist histories / concurrent worker programs", func(args []string) error {
		c := newCommon("hist")
		rounds := c.fs.Int("rounds", 10, "repetitions of each concurrent program")
		only := c.fs.String("kind", "", "seq | conc (default both)")
		_ = c.fs.Parse(args)
		res := newResult("one case = a sequential history of at most MaxOps operations, or a program of concurrent workers, over {aggregate at 4 levels, HTML of the aggregation, HTML of the snapshot, scan again} on a parsed snapshot whose aggregation merges; after every sequential step the snapshot is deep-compared with a freshly parsed one and every aggregation with the specification's answer; concurrent programs share the snapshot and the options value; non-trivial = at least two operations")
		var u histUniv
		var cases []histCase
		err := scanTLC(*c.in, func(tag string, js []byte) error {
			switch tag {
			case "UNIV":
				return json.Unmarshal(js, &u)
			case "CASE":
				var hc histCase
				if err := json.Unmarshal(js, &hc); err != nil {
					return err
				}
				hc.raw = string(js)
				cases = append(cases, hc)
			}
			return nil
		})
		if err != nil {
			return err
		}
		if len(cases) == 0 || len(u.Snaps) == 0 {
			res.infra("no cases / universe")
			return res.write(*c.out)
		}
		sortByKey(len(cases), func(i int) string { return cases[i].raw }, func(i, j int) { cases[i], cases[j] = cases[j], cases[i] })
		for i := range u.U {
			normSig(&u.U[i])
		}
		opts := &stack.Opts{NameArguments: true}
		dumps := make([]string, len(u.Snaps)+1)
		fresh := make([]*stack.Snapshot, len(u.Snaps)+1)
		for sv := 1; sv <= len(u.Snaps); sv++ {
			dumps[sv] = dumpOf(&u, sv)
			fresh[sv] = parseDump(dumps[sv], opts)
			if fresh[sv] == nil || len(fresh[sv].Goroutines) != len(u.Snaps[sv-1]) {
				res.infra("snapshot %d does not parse back", sv)
				return res.write(*c.out)
			}
			// the specification's answers must be those of the fresh snapshot, or the replay means nothing
			for op, lv := range opLevel {
				if got := bucketIDs(parseDump(dumps[sv], opts).Aggregate(lv)); !reflect.DeepEqual(got, u.Answers[sv-1][op]) {
					res.violation(Finding{Property: "C14", Aspect: "fresh", What: fmt.Sprintf("snapshot %d at %s: a fresh snapshot aggregates to %v, the specification says %v", sv, op, got, u.Answers[sv-1][op])})
				}
			}
		}
		if *c.limit > 0 {
			// keep every sequential history; a seeded sample of the concurrent programs
			rng := rand.New(rand.NewSource(*c.seed))
			var kept []histCase
			var conc []histCase
			for _, hc := range cases {
				if hc.Kind == "seq" {
					kept = append(kept, hc)
				} else {
					conc = append(conc, hc)
				}
			}
			rng.Shuffle(len(conc), func(i, j int) { conc[i], conc[j] = conc[j], conc[i] })
			if len(conc) > *c.limit {
				conc = conc[:*c.limit]
			}
			cases = append(kept, conc...)
		}
		var cwg sync.WaitGroup
		sem := make(chan struct{}, runtime.NumCPU())
		for i := range cases {
			cwg.Add(1)
			sem <- struct{}{}
			go func(i int) {
				defer func() { <-sem; cwg.Done() }()
				runHistCase(res, &cases[i], i, &u, dumps, fresh, opts, *only, *rounds)
			}(i)
		}
		cwg.Wait()
		return res.write(*c.out)
	})
}

func runHistCase(res *Result, hc *histCase, i int, u *histUniv, dumps []string, fresh []*stack.Snapshot, opts *stack.Opts, only string, rounds int) {
	{
		{
			ans := u.Answers[hc.Snap-1]
			if hc.Kind == "seq" && only != "conc" {
				s := parseDump(dumps[hc.Snap], opts)
				for k, op := range hc.Hist {
					if w := doOp(op, s, dumps[hc.Snap], opts, ans, fresh[hc.Snap]); w != "" {
						res.violation(Finding{Property: "C14", Aspect: "answer", What: fmt.Sprintf("history %v step %d: %s", hc.Hist, k+1, w), Case: hc})
						break
					}
					if !reflect.DeepEqual(s.Goroutines, fresh[hc.Snap].Goroutines) {
						res.violation(Finding{Property: "C14", Aspect: "mutated", What: fmt.Sprintf("history %v: after step %d (%s) the snapshot's goroutines differ from a freshly parsed snapshot", hc.Hist, k+1, op), Case: hc})
						break
					}
				}
				res.eval(hc.raw, len(hc.Hist) >= 2, sampleEvery(i, 911, hc))
			}
			if hc.Kind == "conc" && only != "seq" {
				for r := 0; r < rounds; r++ {
					s := parseDump(dumps[hc.Snap], opts)
					var wg sync.WaitGroup
					start := make(chan struct{})
					errs := make([]string, len(hc.Prog))
					for w := range hc.Prog {
						wg.Add(1)
						go func(w int) {
							defer wg.Done()
							<-start
							for _, op := range hc.Prog[w] {
								if e := doOp(op, s, dumps[hc.Snap], opts, ans, fresh[hc.Snap]); e != "" {
									errs[w] = e
									return
								}
							}
						}(w)
					}
					close(start)
					wg.Wait()
					bad := false
					for w, e := range errs {
						if e != "" {
							res.violation(Finding{Property: "C14", Aspect: "concurrent-answer", What: fmt.Sprintf("program %v worker %d: %s", hc.Prog, w+1, e), Case: hc})
							bad = true
						}
					}
					if !reflect.DeepEqual(s.Goroutines, fresh[hc.Snap].Goroutines) {
						res.violation(Finding{Property: "C14", Aspect: "mutated", What: fmt.Sprintf("program %v: the shared snapshot differs from a freshly parsed one afterwards", hc.Prog), Case: hc})
						bad = true
					}
					if bad {
						break
					}
				}
				nops := 0
				for _, p := range hc.Prog {
					nops += len(p)
				}
				res.eval(hc.raw, nops >= 2, sampleEvery(i, 911, hc))
			}
		}
	}
}

func sampleEvery(i, n int, v interface{}) interface{} {
	if i%n == 0 {
		return v
	}
	return nil
}
