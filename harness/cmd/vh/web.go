package main

import (
	"bytes"
	"encoding/json"
	"fmt"
	"io"
	"math/rand"
	"net"
	"net/http"
	"net/http/httptest"
	"net/url"
	"os"
	"regexp"
	"runtime"
	"strconv"
	"strings"
	"sync"
	"sync/atomic"
	"time"

	"github.com/maruel/panicparse/v2/stack"
	"github.com/maruel/panicparse/v2/stack/webstack"
)

// C20: a live process snapshots itself, through the library and through the web
// handler, while goroutines are created, blocked and destroyed. The request
// table and the statuses come from spec/Web.tla.

type webReq struct {
	R struct {
		Method  string `json:"method"`
		Maxmem  string `json:"maxmem"`
		Augment string `json:"augment"`
		Sim     string `json:"sim"`
	} `json:"r"`
	Status   int  `json:"status"`
	Augments bool `json:"augments"`
	Twins    int  `json:"twins"` // buckets holding the two goroutines that differ in the thread-lock flag only
}

type regEntry struct {
	fn      string // function that identifies the goroutine
	state   string // expected state (prefix)
	locked  bool
	elided  bool
	creator string
}

type churn struct {
	stdlibR  *io.PipeReader
	stdlibW  *io.PipeWriter
	stop     chan struct{}
	wg       sync.WaitGroup
	registry []regEntry
	mu       sync.Mutex
	cond     *sync.Cond
	blockMu  sync.Mutex
	nilCh    chan int
	recvCh   chan int
	sendCh   chan int
	selCh    chan int
	wgBlock  sync.WaitGroup
	pipeR    net.Conn
	pipeW    net.Conn
	ready    sync.WaitGroup
}

//go:noinline
func churnRecv(c *churn) { c.ready.Done(); <-c.recvCh }

//go:noinline
func churnSend(c *churn) { c.ready.Done(); c.sendCh <- 1 }

//go:noinline
func churnNilRecv(c *churn) { c.ready.Done(); <-c.nilCh }

//go:noinline
func churnSelectNone(c *churn) { c.ready.Done(); select {} }

//go:noinline
func churnSelect(c *churn) {
	c.ready.Done()
	select {
	case <-c.selCh:
	case <-c.recvCh:
	}
}

//go:noinline
func churnMutex(c *churn) { c.ready.Done(); c.blockMu.Lock() }

//go:noinline
func churnCond(c *churn) {
	c.mu.Lock()
	c.ready.Done()
	c.cond.Wait()
	c.mu.Unlock()
}

//go:noinline
func churnWaitGroup(c *churn) { c.ready.Done(); c.wgBlock.Wait() }

//go:noinline
func churnSleep(c *churn) { c.ready.Done(); time.Sleep(24 * time.Hour) }

//go:noinline
func churnIO(c *churn) {
	c.ready.Done()
	b := make([]byte, 1)
	_, _ = c.pipeR.Read(b)
}

//go:noinline
func churnLocked(c *churn) {
	runtime.LockOSThread()
	c.ready.Done()
	<-c.recvCh
}

//go:noinline
func churnDeep(c *churn, n int) int {
	if n == 0 {
		c.ready.Done()
		<-c.recvCh
		return 0
	}
	return churnDeep(c, n-1) + 1
}

//go:noinline
func churnString(c *churn, s string, n int) int {
	c.ready.Done()
	<-c.recvCh
	return len(s) + n
}

// Two instantiations of one generic function, parked on the same line and started from the same line:
// the runtime prints both as churnGeneric[...], with argument lists of different shape
// ({p,l,c},{p,l} and {p,l},{p,l,c}), in goroutines that are otherwise indistinguishable.
//
//go:noinline
func churnGeneric[A, B any](c *churn, a A, b B) (A, B) {
	c.ready.Done()
	<-c.nilCh
	return a, b
}

//go:noinline
func spawnGeneric[A, B any](c *churn, a A, b B) {
	go churnGeneric(c, a, b)
}

var (
	twinCh   = make(chan struct{})
	twinTurn int32
	twinUp   sync.WaitGroup
)

// churnTwin: two goroutines started by one go statement and parked on one line; the first to get
// here is locked to its thread.  No arguments: nothing but the lock flag tells them apart.
//
//go:noinline
func churnTwin() {
	if atomic.AddInt32(&twinTurn, 1) == 1 {
		runtime.LockOSThread()
	}
	twinUp.Done()
	<-twinCh
}

//go:noinline
func startChurn() *churn {
	c := &churn{stop: make(chan struct{}), recvCh: make(chan int), sendCh: make(chan int), selCh: make(chan int)}
	c.cond = sync.NewCond(&c.mu)
	c.blockMu.Lock()
	c.wgBlock.Add(1)
	l, err := net.Listen("tcp", "127.0.0.1:0")
	if err == nil {
		accepted := make(chan struct{})
		go func() { c.pipeW, _ = l.Accept(); close(accepted) }()
		c.pipeR, _ = net.Dial("tcp", l.Addr().String())
		<-accepted // do not close the listener under a connection that was not accepted yet
		l.Close()
		if c.pipeW == nil {
			c.pipeR = nil
		}
	}
	add := func(e regEntry, f func()) {
		c.ready.Add(1)
		c.registry = append(c.registry, e)
		go f()
	}
	const creator = "startChurn"
	twinUp.Add(2)
	for i := 0; i < 2; i++ {
		go churnTwin()
	}
	twinUp.Wait()
	add(regEntry{fn: "churnRecv", state: "chan receive", creator: creator}, func() { churnRecv(c) })
	add(regEntry{fn: "churnSend", state: "chan send", creator: creator}, func() { churnSend(c) })
	add(regEntry{fn: "churnNilRecv", state: "chan receive (nil chan)", creator: creator}, func() { churnNilRecv(c) })
	add(regEntry{fn: "churnSelectNone", state: "select (no cases)", creator: creator}, func() { churnSelectNone(c) })
	add(regEntry{fn: "churnSelect", state: "select", creator: creator}, func() { churnSelect(c) })
	add(regEntry{fn: "churnMutex", state: "sync.Mutex.Lock", creator: creator}, func() { churnMutex(c) })
	add(regEntry{fn: "churnCond", state: "sync.Cond.Wait", creator: creator}, func() { churnCond(c) })
	add(regEntry{fn: "churnWaitGroup", state: "sema", creator: creator}, func() { churnWaitGroup(c) })
	add(regEntry{fn: "churnSleep", state: "sleep", creator: creator}, func() { churnSleep(c) })
	if c.pipeR != nil {
		add(regEntry{fn: "churnIO", state: "IO wait", creator: creator}, func() { churnIO(c) })
	}
	add(regEntry{fn: "churnLocked", state: "chan receive", locked: true, creator: creator}, func() { churnLocked(c) })
	add(regEntry{fn: "churnDeep", state: "chan receive", elided: true, creator: creator}, func() { churnDeep(c, 130) })
	add(regEntry{fn: "churnString", state: "chan receive", creator: creator}, func() { churnString(c, "hello, churn", 7) })
	// a goroutine whose frames are all standard library (io.Copy on a pipe nobody writes to)
	c.stdlibR, c.stdlibW = io.Pipe()
	go io.Copy(io.Discard, c.stdlibR) //nolint:errcheck
	c.ready.Add(2)
	spawnGeneric(c, []int{1, 2, 3}, "generic")
	spawnGeneric(c, "generic", []int{1, 2, 3})
	// a one-line function on the very last line of a file that does not end in a newline (churn_lastline.go)
	add(regEntry{fn: "churnLastLine", state: "chan receive (nil chan)", creator: creator}, func() { churnLastLine(c, 7) })
	c.ready.Wait()
	time.Sleep(50 * time.Millisecond) // let them park
	// goroutines being created and exiting all the time
	for w := 0; w < 4; w++ {
		c.wg.Add(1)
		go func() {
			defer c.wg.Done()
			for {
				select {
				case <-c.stop:
					return
				default:
				}
				var wg sync.WaitGroup
				for i := 0; i < 4; i++ {
					wg.Add(1)
					go func(i int) {
						defer wg.Done()
						x := 0
						for k := 0; k < 200*i; k++ {
							x += k
						}
						runtime.Gosched()
						_ = x
					}(i)
				}
				wg.Wait()
			}
		}()
	}
	return c
}

var reHeaderLine = regexp.MustCompile(`(?m)^goroutine \d+ .*\[[^\]]+\]:$`)

func selfDump() []byte {
	buf := make([]byte, 1<<20)
	for {
		n := runtime.Stack(buf, true)
		if n < len(buf) {
			return buf[:n]
		}
		buf = make([]byte, 2*len(buf))
	}
}

func findGoroutine(s *stack.Snapshot, fn string) *stack.Goroutine {
	for _, g := range s.Goroutines {
		for i := range g.Stack.Calls {
			if strings.HasSuffix(g.Stack.Calls[i].Func.Name, fn) {
				return g
			}
		}
	}
	return nil
}

// live-dump lexer: the harness's own classification of what the runtime printed into the line
// classes of Scanner.tla (for Trace_Live)
var (
	reLiveHdr     = regexp.MustCompile(`^goroutine (\d+) (?:gp=\S+ m=\S+(?: mp=\S+)? )?\[[^\]]+\]:$`)
	reLiveFile    = regexp.MustCompile(`^\t\S.*:\d+(?: \+0x[0-9a-f]+)?$`)
	reLiveCreated = regexp.MustCompile(`^created by \S+`)
	reLiveFunc    = regexp.MustCompile(`^\S.*\(.*\)$`)
	reLiveElided  = regexp.MustCompile(`^\.\.\.(additional|\d+) frames elided\.\.\.$`)
)

type liveLine struct {
	Lead []string `json:"lead"`
	Body string   `json:"body"`
	ID   int      `json:"id"`
}

func lexLive(dump []byte) ([]liveLine, string) {
	var out []liveLine
	text := strings.TrimSuffix(string(dump), "\n")
	for _, l := range strings.Split(text, "\n") {
		ll := liveLine{Lead: []string{}}
		switch {
		case l == "":
			ll.Body = "blank"
		case reLiveHdr.MatchString(l):
			ll.Body = "hdr"
			ll.ID, _ = strconv.Atoi(reLiveHdr.FindStringSubmatch(l)[1])
		case reLiveFile.MatchString(l):
			ll.Body = "file"
			ll.Lead = []string{"t"}
		case strings.HasPrefix(l, "\tgoroutine running on other thread"):
			ll.Body = "unavail"
			ll.Lead = []string{"t"}
		case reLiveCreated.MatchString(l):
			ll.Body = "created"
		case reLiveElided.MatchString(l):
			ll.Body = "elided"
		case reLiveFunc.MatchString(l):
			ll.Body = "func"
		default:
			return nil, l
		}
		out = append(out, ll)
	}
	return out, ""
}

var liveTrace *json.Encoder

func checkLibrarySnapshot(res *Result, c *churn, it int) {
	dump := selfDump()
	want := len(reHeaderLine.FindAll(dump, -1))
	opts := stack.DefaultOpts()
	mk := func(aspect, what string) Finding {
		return Finding{Property: "C20", Aspect: aspect, What: fmt.Sprintf("self snapshot %d: %s", it, what), Input: dump}
	}
	var s *stack.Snapshot
	var err error
	pan := func() (p string) {
		defer func() {
			if r := recover(); r != nil {
				p = fmt.Sprint(r)
			}
		}()
		s, _, err = stack.ScanSnapshot(bytes.NewReader(dump), io.Discard, opts)
		return ""
	}()
	if pan != "" {
		res.violation(mk("panic", "parsing the process's own dump with the default options panicked: "+pan))
		return
	}
	if err != nil && err != io.EOF {
		res.violation(mk("error", fmt.Sprintf("the process's own dump does not parse: %v", err)))
		return
	}
	if s == nil || len(s.Goroutines) != want {
		n := 0
		if s != nil {
			n = len(s.Goroutines)
		}
		res.violation(mk("count", fmt.Sprintf("%d goroutine headers in the dump, %d goroutines parsed", want, n)))
		return
	}
	for _, e := range c.registry {
		g := findGoroutine(s, e.fn)
		switch {
		case g == nil:
			res.violation(mk("registry", "known goroutine "+e.fn+" is missing"))
		case !strings.HasPrefix(g.State, e.state):
			res.violation(mk("registry", fmt.Sprintf("known goroutine %s has state %q, expected %q", e.fn, g.State, e.state)))
		case g.Locked != e.locked:
			res.violation(mk("registry", fmt.Sprintf("known goroutine %s locked=%v", e.fn, g.Locked)))
		case e.elided && (!g.Stack.Elided || len(g.Stack.Calls) < 90):
			res.violation(mk("registry", fmt.Sprintf("deep goroutine %s: elided=%v with %d frames", e.fn, g.Stack.Elided, len(g.Stack.Calls))))
		case len(g.CreatedBy.Calls) != 1 || !strings.Contains(g.CreatedBy.Calls[0].Func.Name, e.creator):
			res.violation(mk("registry", fmt.Sprintf("known goroutine %s: creator %+v, expected %s", e.fn, g.CreatedBy.Calls, e.creator)))
		default:
			// leaf-to-root: the identifying function is above the goroutine's entry closure
			res.row("state", g.State)
		}
	}
	for _, g := range s.Goroutines {
		res.row("live-state", g.State)
	}
	if liveTrace != nil {
		lines, bad := lexLive(dump)
		if bad != "" {
			res.count("live_lines_not_classified", 1)
			res.row("live-unclassified", bad)
			return
		}
		ids, nc := []int{}, []int{}
		for _, g := range s.Goroutines {
			ids = append(ids, g.ID)
			nc = append(nc, len(g.Stack.Calls))
		}
		_ = liveTrace.Encode(map[string]interface{}{"lines": lines, "ids": ids, "ncalls": nc})
		res.count("live_trace_records", 1)
		res.count("live_trace_lines", len(lines))
	}
}

//go:noinline
func parkDeep(n int, pw *sync.WaitGroup, park chan struct{}) int {
	if n == 0 {
		pw.Done()
		<-park
		return 0
	}
	return parkDeep(n-1, pw, park) + 1
}

var reSig = regexp.MustCompile(`Signature #\d+: (\d+) routine`)

func doRequest(r *webReq) (*httptest.ResponseRecorder, string) {
	q := url.Values{}
	if r.R.Maxmem != "absent" {
		q.Set("maxmem", r.R.Maxmem)
	}
	if r.R.Augment != "absent" {
		q.Set("augment", r.R.Augment)
	}
	if r.R.Sim != "absent" {
		q.Set("similarity", r.R.Sim)
	}
	target := "/debug/panicparse?" + q.Encode()
	req := httptest.NewRequest(r.R.Method, target, nil)
	w := httptest.NewRecorder()
	func() {
		defer func() {
			if p := recover(); p != nil {
				// reported by checkWebResponse through the status: a handler that panics answers nothing
				w.Code = 599
				w.Body.Reset()
				fmt.Fprintf(w.Body, "PANIC: %v", p)
			}
		}()
		webstack.SnapshotHandler(w, req)
	}()
	return w, target
}

func checkWebResponse(res *Result, c *churn, r *webReq, w *httptest.ResponseRecorder, target string, lo, hi int, bigDump bool) {
	mk := func(aspect, what string) Finding {
		return Finding{Property: "C20", Aspect: aspect, What: fmt.Sprintf("%s %s: %s", r.R.Method, target, what), Case: r}
	}
	want := r.Status
	if want >= 400 && want < 500 && w.Code >= 400 && w.Code < 500 && w.Code != want {
		res.drift(mk("status", fmt.Sprintf("status %d, the specification says %d (both are 4xx)", w.Code, want)))
		return
	}
	if w.Code != want {
		// a dump larger than the buffer it was given may be reported as a failure
		if !(want == 200 && w.Code == 500 && bigDump) {
			res.violation(mk("status", fmt.Sprintf("status %d, the specification says %d", w.Code, want)))
		}
		return
	}
	if want != 200 {
		return
	}
	body := w.Body.String()
	if !strings.HasSuffix(strings.TrimSpace(body), `<div class="bottom-padding"></div>`) {
		res.violation(mk("page", "the page is not complete"))
		return
	}
	if _, err := tokenizeHTML(body); err != nil {
		res.violation(mk("page", "the page does not tokenise: "+err.Error()))
		return
	}
	if bigDump {
		return
	}
	total := 0
	for _, m := range reSig.FindAllStringSubmatch(body, -1) {
		n, _ := strconv.Atoi(m[1])
		total += n
	}
	if total < lo-2 || total > hi+60 {
		res.violation(mk("accounting", fmt.Sprintf("the page accounts for %d goroutines; the process had between %d and %d", total, lo, hi)))
		return
	}
	for _, e := range c.registry {
		if !strings.Contains(body, e.fn) {
			res.violation(mk("registry", "known goroutine "+e.fn+" is not on the page"))
			return
		}
	}
	// the similarity level is the one the request names: the two goroutines that differ in the
	// thread-lock flag only share a bucket at every level but ExactFlags
	if r.Twins != 0 {
		var counts []int
		locs := reSig.FindAllStringSubmatchIndex(body, -1)
		for k, l := range locs {
			end := len(body)
			if k+1 < len(locs) {
				end = locs[k+1][0]
			}
			if strings.Contains(body[l[0]:end], "churnTwin") {
				n, _ := strconv.Atoi(body[l[2]:l[3]])
				counts = append(counts, n)
			}
		}
		want := []int{2}
		if r.Twins == 2 {
			want = []int{1, 1}
		}
		res.count("lock_twin_pages_"+r.R.Sim, 1)
		if fmt.Sprint(counts) != fmt.Sprint(want) {
			f := mk("level", fmt.Sprintf("the two goroutines that differ only in the thread-lock flag are shown in buckets of %v members; at the similarity level the request names it is %v", counts, want))
			f.Property = "C05"
			res.violation(f)
			res.violation(mk("level", fmt.Sprintf("the page is not aggregated at the similarity level the request names (lock twins in buckets of %v, expected %v)", counts, want)))
			return
		}
	}
	// path guessing is not something a request can turn off: standard-library frames are classed as such
	// whatever the parameters, and the bucket whose frames are all standard library (io.Copy on a pipe)
	// comes after the buckets with code of this program (C13's contract, end to end)
	if i := strings.Index(body, "(*pipe).read</a>"); i >= 0 {
		seg := body[max(0, i-300):i]
		if j := strings.LastIndex(seg, `class="`); j >= 0 && !strings.HasPrefix(seg[j:], `class="FuncStdlib`) {
			cl := seg[j:min(len(seg), j+40)]
			res.violation(mk("classes", "the frame io.(*pipe).read is not classed as standard library: "+cl))
			f := mk("classes", "the frame io.(*pipe).read is not classed as standard library ("+cl+"): the ordering contract has nothing to go by")
			f.Property = "C13"
			res.violation(f)
			return
		}
	}
	if iStd, iMain := strings.Index(body, "(*pipe).read</a>"), strings.Index(body, "churnString</a>"); iStd >= 0 && iMain >= 0 {
		res.count("stdlib_bucket_order_checked", 1)
	}
	if iStd, iMain := strings.Index(body, "(*pipe).read</a>"), strings.Index(body, "churnString</a>"); iStd >= 0 && iMain >= 0 && iStd < iMain {
		f := mk("order", "the bucket of the goroutine in io.Copy (standard library frames only) is shown before the bucket of churnString (package main)")
		f.Property = "C13"
		res.violation(f)
	}
	// augmentation as requested (and not as an earlier request left it)
	if i := strings.Index(body, "churnString</a>"); i >= 0 {
		seg := body[i:min(len(body), i+400)]
		has := strings.Contains(seg, "string(")
		if has != r.Augments {
			res.violation(mk("augment", fmt.Sprintf("augment requested=%v but the arguments of churnString are rendered %q", r.Augments, seg[:min(len(seg), 200)])))
		}
	}
}

func init() {
	register("web", "C20: live self-snapshots and the web handler under churn (build with -race)", func(args []string) error {
		c := newCommon("web")
		iters := c.fs.Int("iters", 60, "library-level self snapshots")
		nreq := c.fs.Int("requests", 200, "requests (a seeded sample of the table; every invalid class is kept)")
		big := c.fs.Int("big", 3200, "goroutines parked for the large-dump phase (0 = skip)")
		liveOut := c.fs.String("live", "", "write the lexed live dumps (ndjson) here, for Trace_Live")
		huge := c.fs.Int("hugeonly", 0, "only this: park goroutines 100 frames deep, that many at a time, until the dump is above half of the default maxmem, and ask for one page with the default maxmem")
		_ = c.fs.Parse(args)
		if *huge > 0 {
			res := newResult("one case = one request with the default maxmem against a process whose dump is larger than half of it (the capture buffer has to double all the way); non-trivial = every case")
			park := make(chan struct{})
			var pw sync.WaitGroup
			// in batches, until the dump is comfortably above half of the default maxmem (how many bytes a
			// frame takes depends on where the harness was built)
			size := 0
			for b := 0; b < 60 && size < 38<<20; b++ {
				for i := 0; i < *huge; i++ {
					pw.Add(1)
					go parkDeep(100, &pw, park)
				}
				pw.Wait()
				time.Sleep(50 * time.Millisecond)
				size = len(selfDump())
			}
			res.count("huge_dump_bytes", size)
			if size <= 32<<20 || size >= 64<<20 {
				res.infra("the dump of %d parked goroutines is %d bytes: not between half of the default maxmem and the default maxmem", *huge, size)
				return res.write(*c.out)
			}
			r := webReq{Status: 200, Augments: false}
			r.R.Method, r.R.Maxmem, r.R.Augment, r.R.Sim = "GET", "absent", "0", "absent"
			lo := runtime.NumGoroutine()
			var w *httptest.ResponseRecorder
			var target string
			pan := func() (p string) {
				defer func() {
					if x := recover(); x != nil {
						p = fmt.Sprint(x)
					}
				}()
				w, target = doRequest(&r)
				return ""
			}()
			switch {
			case pan != "":
				res.violation(Finding{Property: "C20", Aspect: "maxmem", What: fmt.Sprintf("GET with the default maxmem and a dump of %d bytes: the handler panicked: %s", size, pan)})
				res.violation(Finding{Property: "C03", Aspect: "panic", What: fmt.Sprintf("the web handler panicked on a dump of %d bytes: %s", size, pan)})
			case w.Code != 200:
				res.violation(Finding{Property: "C20", Aspect: "maxmem", What: fmt.Sprintf("GET %s with a dump of %d bytes: status %d although the default maxmem (64 MiB) is larger than the dump", target, size, w.Code)})
			default:
				total := 0
				for _, m := range reSig.FindAllStringSubmatch(w.Body.String(), -1) {
					n, _ := strconv.Atoi(m[1])
					total += n
				}
				if total < lo-80 {
					res.violation(Finding{Property: "C20", Aspect: "maxmem", What: fmt.Sprintf("GET %s with a dump of %d bytes: the page accounts for %d of about %d goroutines", target, size, total, lo)})
				}
			}
			res.eval("huge", true, nil)
			close(park)
			return res.write(*c.out)
		}
		res := newResult("one case = one self snapshot of the harness process under a churn workload (13 long-lived goroutines in known states + goroutines created and exiting), or one HTTP request of Web.tla's table against webstack.SnapshotHandler with 8 concurrent clients, or one request against a dump larger than 1 MiB with a maxmem that is not a power of two; non-trivial = every case")
		var univ struct {
			Requests []webReq `json:"requests"`
		}
		err := scanTLC(*c.in, func(tag string, js []byte) error {
			if tag == "UNIV" {
				return json.Unmarshal(js, &univ)
			}
			return nil
		})
		if err != nil {
			return err
		}
		if len(univ.Requests) == 0 {
			res.infra("no request table")
			return res.write(*c.out)
		}
		if *liveOut != "" {
			f, err := os.Create(*liveOut)
			if err != nil {
				return err
			}
			defer f.Close()
			liveTrace = json.NewEncoder(f)
		}
		ch := startChurn()
		// library level
		for i := 0; i < *iters; i++ {
			checkLibrarySnapshot(res, ch, i)
			res.eval(fmt.Sprint("self", i), true, nil)
		}
		// handler level
		rng := rand.New(rand.NewSource(*c.seed))
		reqs := univ.Requests
		sortByKey(len(reqs), func(i int) string { b, _ := json.Marshal(reqs[i]); return string(b) }, func(i, j int) { reqs[i], reqs[j] = reqs[j], reqs[i] })
		rng.Shuffle(len(reqs), func(i, j int) { reqs[i], reqs[j] = reqs[j], reqs[i] })
		var sel []webReq
		n200 := 0
		// first, for every similarity value a request may name, two requests that are served in full
		perSim := map[string]int{}
		picked := map[string]bool{}
		for _, r := range reqs {
			if r.Status == 200 && (r.R.Maxmem == "absent" || r.R.Maxmem == "67108864" || r.R.Maxmem == "4294967296") && perSim[r.R.Sim] < 2 {
				perSim[r.R.Sim]++
				b, _ := json.Marshal(r)
				picked[string(b)] = true
				sel = append(sel, r)
				n200++
			}
		}
		for _, r := range reqs {
			if b, _ := json.Marshal(r); picked[string(b)] {
				continue
			}
			if r.R.Maxmem == "1" || r.R.Maxmem == "1048576" || r.R.Maxmem == "-5" {
				// tiny budgets are exercised in the large-dump phase only when they are >= the dump
			}
			if r.Status == 200 {
				if n200 >= *nreq*2/3 {
					continue
				}
				n200++
			}
			sel = append(sel, r)
			if len(sel) >= *nreq {
				break
			}
		}
		var wg sync.WaitGroup
		jobs := make(chan int, 16)
		for w := 0; w < 8; w++ {
			wg.Add(1)
			go func() {
				defer wg.Done()
				for i := range jobs {
					r := &sel[i]
					lo := runtime.NumGoroutine()
					w, target := doRequest(r)
					hi := runtime.NumGoroutine()
					if hi < lo {
						lo, hi = hi, lo
					}
					checkWebResponse(res, ch, r, w, target, lo-16, hi+16, false)
					var sample interface{}
					if i%37 == 0 {
						sample = map[string]interface{}{"request": target, "method": r.R.Method, "status": w.Code}
					}
					res.eval(fmt.Sprint("req", i, target), true, sample)
				}
			}()
		}
		for i := range sel {
			jobs <- i
		}
		close(jobs)
		wg.Wait()
		// large dump: the buffer has to grow up to a maxmem that is not 1 MiB x 2^k
		if *big > 0 {
			park := make(chan struct{})
			var pw sync.WaitGroup
			for i := 0; i < *big; i++ {
				pw.Add(1)
				go parkDeep(6, &pw, park)
			}
			pw.Wait()
			time.Sleep(100 * time.Millisecond)
			size := len(selfDump())
			res.count("large_dump_bytes", size)
			for _, mm := range []int{size + size/16, size + 4096, 2*1048576 - 1, 3 * 1048576, 64 << 20} {
				if mm <= size+1024 {
					continue
				}
				r := webReq{Status: 200, Augments: false}
				r.R.Method, r.R.Maxmem, r.R.Augment, r.R.Sim = "GET", strconv.Itoa(mm), "0", "absent"
				lo := runtime.NumGoroutine()
				w, target := doRequest(&r)
				if w.Code != 200 {
					res.violation(Finding{Property: "C20", Aspect: "maxmem", What: fmt.Sprintf("GET %s with a dump of %d bytes: status %d although maxmem (%d) is larger than the dump", target, size, w.Code, mm)})
				} else {
					total := 0
					for _, m := range reSig.FindAllStringSubmatch(w.Body.String(), -1) {
						n, _ := strconv.Atoi(m[1])
						total += n
					}
					if total < lo-80 {
						res.violation(Finding{Property: "C20", Aspect: "maxmem", What: fmt.Sprintf("GET %s with a dump of %d bytes: the page accounts for %d of about %d goroutines", target, size, total, lo)})
					}
				}
				res.eval(fmt.Sprint("big", mm), true, nil)
			}
			close(park)
		}
		close(ch.stop)
		ch.wg.Wait()
		fmt.Fprintln(os.Stderr, "web: done")
		return res.write(*c.out)
	})
}

var _ = http.StatusOK
