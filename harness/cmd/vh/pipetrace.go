package main

import (
	"encoding/json"
	"fmt"
	"math/rand"
	"os"

	"github.com/maruel/panicparse/v2/stack"
)

// Recorder for spec/Trace_Pipe.tla: long random streams over MC_Pipe's
// alphabet, delivered one line per Read to the real ScanSnapshot under the
// resume protocol; per line the bytes written by the time the next Read is
// issued and the calls returned so far, per call its snapshot ids, error
// class and the bytes handed back.

func init() {
	register("pipetrace", "record ScanSnapshot executions on long random streams for Trace_Pipe", func(args []string) error {
		c := newCommon("pipetrace")
		traceOut := c.fs.String("trace", "", "ndjson output")
		n := c.fs.Int("n", 60, "streams")
		_ = c.fs.Parse(args)
		res := newResult("one case = one random stream of 30-200 alphabet lines (random lines mixed with well-formed dump and race-report templates and near-miss fragments), delivered one line per Read; every line and every call is one recorded event; non-trivial = every stream")
		var alpha []absLine
		err := scanTLC(*c.in, func(tag string, js []byte) error {
			if tag == "UNIV" {
				var u struct {
					Alpha []absLine `json:"alpha"`
				}
				if json.Unmarshal(js, &u) == nil && len(u.Alpha) > 0 {
					alpha = u.Alpha
				}
			}
			return nil
		})
		if err != nil {
			return err
		}
		if len(alpha) == 0 || *traceOut == "" {
			res.infra("no alphabet / no -trace")
			return res.write(*c.out)
		}
		byBody := map[string][]int{}
		for i, a := range alpha {
			if len(a.Lead) == 0 || a.Body == "file" || a.Body == "unavail" {
				byBody[a.Body] = append(byBody[a.Body], i+1)
			}
		}
		f, err := os.Create(*traceOut)
		if err != nil {
			return err
		}
		defer f.Close()
		enc := json.NewEncoder(f)
		rng := rand.New(rand.NewSource(*c.seed))
		pick := func(b string) int {
			v := byBody[b]
			if len(v) == 0 {
				return 1 + rng.Intn(len(alpha))
			}
			return v[rng.Intn(len(v))]
		}
		// race-mode function/file lines are the indented ones
		raceFn, raceFile := 0, 0
		for i, a := range alpha {
			if a.Body == "func" && len(a.Lead) == 2 {
				raceFn = i + 1
			}
			if a.Body == "file" && len(a.Lead) == 2 && a.Lead[0] == "s" && a.Lead[1] == "s" {
				raceFile = i + 1
			}
		}
		for t := 0; t < *n; t++ {
			var inp []int
			L := 30 + rng.Intn(170)
			for len(inp) < L {
				switch rng.Intn(6) {
				case 0: // a goroutine
					inp = append(inp, pick("hdr"))
					for k := rng.Intn(3); k >= 0; k-- {
						inp = append(inp, pick("func"), pick("file"))
					}
					if rng.Intn(2) == 0 {
						inp = append(inp, pick("created"), pick("file"))
					}
					inp = append(inp, pick("blank"))
				case 1: // a race report, when the alphabet has the pieces
					if raceFn != 0 && raceFile != 0 {
						inp = append(inp, pick("rsep"), pick("rwarn"), pick("rop"), raceFn, raceFile, pick("blank"))
						if rng.Intn(2) == 0 {
							inp = append(inp, pick("rprev"), raceFn, raceFile, pick("blank"))
						}
						inp = append(inp, pick("rgo"), raceFn, raceFile)
						if rng.Intn(3) != 0 {
							inp = append(inp, pick("rsep"))
						}
					}
				case 2: // near misses
					inp = append(inp, pick("rsep"))
					if rng.Intn(2) == 0 {
						inp = append(inp, pick("rwarn"))
					}
				case 3:
					inp = append(inp, pick("junk"))
				default:
					inp = append(inp, 1+rng.Intn(len(alpha)))
				}
			}
			eol := "lf"
			if rng.Intn(4) == 0 && !(alpha[inp[len(inp)-1]-1].Body == "blank" && len(alpha[inp[len(inp)-1]-1].Lead) == 0) {
				eol = "none"
			}
			lines := make([][]byte, len(inp))
			lens := make([]int, len(inp))
			var data []byte
			for i, k := range inp {
				e := "lf"
				if i == len(inp)-1 {
					e = eol
				}
				lines[i] = renderLine(&alpha[k-1], e, rng, false)
				lens[i] = len(lines[i])
				data = append(data, lines[i]...)
			}
			src := newSource(data, append([]int{}, lens...), 0, nil, false)
			src.keepLog = true
			obs := runStream(src, &stack.Opts{}, len(lines)+3)
			bad := src.hung
			for _, o := range obs {
				if o.Panic != "" {
					bad = true
					res.violation(Finding{Property: "C03", Aspect: "panic", What: "long stream: " + firstLine(o.Panic), Input: data})
				}
			}
			if bad {
				continue
			}
			total := 0
			for _, o := range obs {
				total += len(o.Fwd)
			}
			_ = enc.Encode(map[string]interface{}{"ev": "begin", "inp": inp, "lens": lens, "eol": eol})
			// reads: Read #i delivers line i; the event of Read #(i+1) tells what happened by then
			reads := src.log
			for i := 1; i <= len(inp); i++ {
				ev := map[string]interface{}{"ev": "line", "i": i}
				if i < len(reads) && !(i == len(inp) && eol == "none") {
					ev["written"] = reads[i].Written
					ev["returned"] = reads[i].Call
				} else {
					ev["written"] = total
					ev["returned"] = -1
				}
				_ = enc.Encode(ev)
			}
			for _, o := range obs {
				ids := []int{}
				nc := []int{}
				if o.Snap != nil {
					for _, g := range o.Snap.Goroutines {
						ids = append(ids, g.ID)
						nc = append(nc, len(g.Stack.Calls))
					}
				}
				_ = enc.Encode(map[string]interface{}{"ev": "call", "ids": ids, "ncalls": nc, "err": o.ErrClass, "rest": len(o.Rest)})
			}
			_ = enc.Encode(map[string]interface{}{"ev": "end"})
			res.count("pipe_trace_events", len(inp)+len(obs)+2)
			res.eval(fmt.Sprint(inp, eol), true, sampleEvery(t, 29, map[string]interface{}{"inp": inp, "eol": eol}))
		}
		return res.write(*c.out)
	})
}
