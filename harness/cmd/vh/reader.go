package main

import (
	"bytes"
	"crypto/sha1"
	"encoding/json"
	"fmt"
	"io"
	"math/rand"
	"reflect"
	"runtime"
	"sync"

	"github.com/maruel/panicparse/v2/stack"
)

// Scaled replay of MC_Reader behaviours (spec/Reader.tla): one model cell is
// K = 16384/B real bytes, so that the real reader's cursors are K times the
// model's at every step and each behaviour slides, refills and hits
// buffer-full exactly where the model does.

type readerCase struct {
	raw      string
	B        int             `json:"B"`
	Retry    int             `json:"Retry"`
	N        int             `json:"N"`
	NL       []int           `json:"NL"`
	Fin      string          `json:"fin"`
	WithData bool            `json:"withData"`
	Reads    [][]interface{} `json:"reads"`
	Lines    [][]interface{} `json:"lines"`
}

const realBuf = 16 * 1024

// realPlan turns the model schedule into real chunk sizes. Runs of zero-length
// reads are scaled so that "one short of the retry bound" and "the retry
// bound" are 99 and 100 real reads.
func (rc *readerCase) realPlan(K int) (plan []int, final error, withData bool, noprogress bool) {
	final = io.EOF
	if rc.Fin == "err" {
		final = errInjected
	}
	i := 0
	for i < len(rc.Reads) {
		n := int(rc.Reads[i][0].(float64))
		e := rc.Reads[i][1].(string)
		if e != "" {
			// final read
			if n > 0 {
				plan = append(plan, n*K)
				withData = true
			}
			return
		}
		if n > 0 {
			plan = append(plan, n*K)
			i++
			continue
		}
		// run of zero reads
		j := i
		for j < len(rc.Reads) && int(rc.Reads[j][0].(float64)) == 0 && rc.Reads[j][1].(string) == "" {
			j++
		}
		z := j - i
		real := z
		if z >= rc.Retry {
			real = 100
			noprogress = true
		} else if z == rc.Retry-1 {
			real = 99
		}
		for k := 0; k < real; k++ {
			plan = append(plan, 0)
		}
		i = j
	}
	return
}

// lineLens returns the model's pieces of the stream: lengths in cells of the
// newline-delimited lines (last possibly unterminated).
func (rc *readerCase) pieces() (lens []int, terminated []bool) {
	nl := map[int]bool{}
	for _, p := range rc.NL {
		nl[p] = true
	}
	start := 0
	for c := 0; c < rc.N; c++ {
		if nl[c] {
			lens = append(lens, c+1-start)
			terminated = append(terminated, true)
			start = c + 1
		}
	}
	if start < rc.N {
		lens = append(lens, rc.N-start)
		terminated = append(terminated, false)
	}
	return
}

func pad(prefix, suffix string, total int, fill byte) []byte {
	// prefix + fill... + suffix, exactly total bytes
	if len(prefix)+len(suffix) > total {
		panic("pad: too small")
	}
	b := make([]byte, 0, total)
	b = append(b, prefix...)
	for len(b) < total-len(suffix) {
		b = append(b, fill)
	}
	b = append(b, suffix...)
	return b
}

// buildStream makes the real bytes of the case. mode "junk": every line is
// pass-through text. mode "dump": the lines form (junk,) header, function,
// file, then junk, each padded to its cell length; indent is the uniform
// indentation of the dump lines.
func (rc *readerCase) buildStream(K int, mode string, indent string) []byte {
	lens, term := rc.pieces()
	var data []byte
	kinds := make([]string, len(lens))
	for i := range kinds {
		kinds[i] = "junk"
	}
	if mode == "dump" && len(lens) >= 3 {
		first := 0
		if len(lens) >= 4 {
			first = 1
		}
		kinds[first], kinds[first+1], kinds[first+2] = "hdr", "func", "file"
	}
	for i, l := range lens {
		total := l * K
		eol := ""
		if term[i] {
			eol = "\n"
		}
		var line []byte
		switch kinds[i] {
		case "junk":
			line = pad("x", eol, total, 'y')
		case "hdr":
			line = pad(indent+"goroutine 1 [run", "]:"+eol, total, 'n')
		case "func":
			line = pad(indent+"main.f", "(0x1)"+eol, total, 'o')
		case "file":
			line = pad(indent+"\t/a/", ".go:12 +0x1"+eol, total, 'b')
		}
		data = append(data, line...)
	}
	return data
}

type obsSummary struct {
	Fwd   []byte
	Rest  []byte
	Err   string
	Snaps [][]string
	Calls int
}

func goroutineSummary(s *stack.Snapshot) []string {
	var out []string
	if s == nil {
		return out
	}
	for _, g := range s.Goroutines {
		// both runs parse the same bytes: every string must be the same string, not only as long
		x := fmt.Sprintf("id=%d first=%v state=%q race=%v/%x", g.ID, g.First, g.State, g.RaceWrite, g.RaceAddr)
		for _, c := range g.Stack.Calls {
			x += fmt.Sprintf(" [%x %x:%d %s]", sha1.Sum([]byte(c.Func.Complete)), sha1.Sum([]byte(c.RemoteSrcPath)), c.Line, c.Args.String())
		}
		for _, c := range g.CreatedBy.Calls {
			x += fmt.Sprintf(" created[%x %x:%d]", sha1.Sum([]byte(c.Func.Complete)), sha1.Sum([]byte(c.RemoteSrcPath)), c.Line)
		}
		out = append(out, x)
	}
	return out
}

func summarize(obs []callObs) obsSummary {
	var s obsSummary
	for _, o := range obs {
		s.Fwd = append(s.Fwd, o.Fwd...)
		if o.Snap != nil {
			s.Snaps = append(s.Snaps, goroutineSummary(o.Snap))
		}
	}
	s.Calls = len(obs)
	if len(obs) > 0 {
		s.Rest = obs[len(obs)-1].Rest
		s.Err = obs[len(obs)-1].ErrClass
	}
	return s
}

func short(b []byte) string {
	if len(b) <= 80 {
		return string(b)
	}
	return fmt.Sprintf("%s…(%d bytes)…%s", b[:30], len(b), b[len(b)-30:])
}

func (s obsSummary) brief() map[string]interface{} {
	return map[string]interface{}{"fwd_len": len(s.Fwd), "fwd": short(s.Fwd), "rest_len": len(s.Rest), "rest": short(s.Rest), "err": s.Err, "snaps": s.Snaps, "calls": s.Calls}
}

func checkReaderCase(res *Result, rc *readerCase, idx int) {
	if res.saturated("C09", "C11") {
		return
	}
	K := realBuf / rc.B
	plan, final, withData, noprog := rc.realPlan(K)
	// mode junk: compare with the specification's returned lines
	{
		data := rc.buildStream(K, "junk", "")
		src := newSource(data, plan, 0, final, withData)
		src.budget = len(plan) + 300
		src.keepLog = true
		obs := runStream(src, &stack.Opts{}, 4)
		mk := func(prop, aspect, what string, exp, got interface{}) Finding {
			return Finding{Property: prop, Aspect: aspect, What: fmt.Sprintf("reader case %d junk: %s", idx, what), Case: rc, Expected: exp, Observed: got}
		}
		if len(obs) == 0 || obs[0].Panic != "" {
			p := ""
			if len(obs) > 0 {
				p = firstLine(obs[0].Panic)
			}
			res.violation(mk("C03", "panic", "panic: "+p, nil, p))
			res.violation(mk("C09", "panic", "panic: "+p, nil, p))
			return
		}
		if src.hung {
			res.violation(mk("C03", "hang", "read budget exhausted", nil, src.reads))
			res.violation(mk("C09", "hang", "read budget exhausted", nil, src.reads))
			return
		}
		last := rc.Lines[len(rc.Lines)-1]
		to := int(last[1].(float64)) * K
		wantErr := map[string]string{"eof": "eof", "err": "reader", "noprogress": "reader"}[last[2].(string)]
		s := summarize(obs)
		okErr := s.Err == wantErr
		if okErr && last[2].(string) == "noprogress" && obs[len(obs)-1].Err != io.ErrNoProgress {
			okErr = false
		}
		if okErr && last[2].(string) == "err" && obs[len(obs)-1].Err != errInjected {
			okErr = false
		}
		if !bytes.Equal(s.Fwd, data[:to]) || !bytes.Equal(s.Rest, data[to:]) || !okErr {
			res.violation(mk("C09", "junk", "forwarded bytes / remainder / error differ from the specification",
				map[string]interface{}{"fwd_len": to, "rest_len": len(data) - to, "err": last[2]}, s.brief()))
		}
		// pieces: one Write per returned line (informational: binds Reader.tla's `lines`)
		var want []int
		for _, l := range rc.Lines {
			n := (int(l[1].(float64)) - int(l[0].(float64))) * K
			if n > 0 {
				want = append(want, n)
			}
		}
		var got []int
		for _, o := range obs {
			got = append(got, o.Pieces...)
		}
		if !reflect.DeepEqual(want, got) {
			res.count("piece_mismatch", 1)
		}
		// C11: whenever the source is asked for more, every complete line already
		// delivered has been written.
		for _, ev := range src.log {
			before := ev.Delivered - ev.N
			lastNL := bytes.LastIndexByte(data[:before], '\n') + 1
			if ev.Written < lastNL {
				res.violation(Finding{Property: "C11", Aspect: "withheld", What: fmt.Sprintf("reader case %d: at a Read, %d bytes delivered with last complete line ending at %d, but only %d written", idx, before, lastNL, ev.Written), Case: rc})
				break
			}
		}
		_ = noprog
	}
	// mode dump: compare with the all-at-once delivery of the same bytes
	for _, indent := range []string{"", "  "} {
		lens, _ := rc.pieces()
		if len(lens) < 3 {
			continue
		}
		data := rc.buildStream(K, "dump", indent)
		src := newSource(data, append([]int{}, plan...), 0, final, withData)
		src.budget = len(plan) + 300
		obs := runStream(src, &stack.Opts{}, 6)
		delivered := src.pos
		lastErr := rc.Lines[len(rc.Lines)-1][2].(string)
		var refFinal error
		if lastErr != "eof" {
			refFinal = errInjected // the reference stream fails at the same place, all data delivered at once
		}
		ref := runStream(newSource(data[:delivered], nil, 0, refFinal, false), &stack.Opts{}, 6)
		a, b := summarize(obs), summarize(ref)
		b.Rest = append(b.Rest, data[delivered:]...)
		bad := ""
		for _, o := range obs {
			if o.Panic != "" {
				bad = "panic: " + firstLine(o.Panic)
			}
		}
		if src.hung {
			bad = "hang"
		}
		if bad == "" && (!bytes.Equal(a.Fwd, b.Fwd) || !bytes.Equal(a.Rest, b.Rest) || !reflect.DeepEqual(a.Snaps, b.Snaps) || a.Err != b.Err) {
			bad = "result depends on the delivery schedule"
		}
		if bad != "" {
			res.violation(Finding{Property: "C09", Aspect: "dump", What: fmt.Sprintf("reader case %d dump indent=%q: %s", idx, indent, bad), Case: rc, Expected: b.brief(), Observed: a.brief()})
		}
	}
}

func init() {
	register("reader", "scaled replay of MC_Reader behaviours on the real reader through ScanSnapshot", func(args []string) error {
		c := newCommon("reader")
		_ = c.fs.Parse(args)
		res := newResult("one case = one complete behaviour of Reader.tla (stream of N cells with newline set NL, a delivery schedule and the way the stream ends) replayed with one cell = 16384/B bytes, as pass-through text (judged against the specification's returned lines) and as an (indented) dump padded to the cell grid (judged against the all-at-once delivery); non-trivial = the schedule has more than one Read with data or a zero-length read")
		var cases []readerCase
		err := scanTLC(*c.in, func(tag string, js []byte) error {
			if tag == "CASE" {
				var rc readerCase
				if err := json.Unmarshal(js, &rc); err != nil {
					return err
				}
				rc.raw = string(js)
				cases = append(cases, rc)
			}
			return nil
		})
		if err != nil {
			return err
		}
		sortByKey(len(cases), func(i int) string { return cases[i].raw }, func(i, j int) { cases[i], cases[j] = cases[j], cases[i] })
		if len(cases) == 0 {
			res.infra("no cases")
			return res.write(*c.out)
		}
		if *c.limit > 0 && len(cases) > *c.limit {
			rng := rand.New(rand.NewSource(*c.seed))
			rng.Shuffle(len(cases), func(i, j int) { cases[i], cases[j] = cases[j], cases[i] })
			cases = cases[:*c.limit]
		}
		var wg sync.WaitGroup
		ch := make(chan int, 256)
		for w := 0; w < runtime.NumCPU(); w++ {
			wg.Add(1)
			go func() {
				defer wg.Done()
				for i := range ch {
					rc := &cases[i]
					checkReaderCase(res, rc, i)
					js, _ := json.Marshal(rc)
					var sample interface{}
					if i%4999 == 0 {
						sample = rc
					}
					res.eval(string(js), len(rc.Reads) > 2, sample)
				}
			}()
		}
		for i := range cases {
			ch <- i
		}
		close(ch)
		wg.Wait()
		return res.write(*c.out)
	})
}
