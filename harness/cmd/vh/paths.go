package main

import (
	"encoding/json"
	"fmt"
	"math/rand"
	"os"
	"path/filepath"
	"reflect"
	"runtime"
	"strings"
	"sync"

	"github.com/maruel/panicparse/v2/stack"
)

// C18 (and the path side of C06): replay of MC_Paths layouts on real
// directories.

type pathsLoc struct {
	Class string   `json:"class"`
	Local []string `json:"local"`
	Rel   []string `json:"rel"`
	Imp   []string `json:"imp"`
}

type pathsCase struct {
	raw      string
	Fs       [][]string `json:"fs"`
	Rg       []string   `json:"rg"`
	Rp       []string   `json:"rp"`
	Frames   [][]string `json:"frames"`
	InDomain bool       `json:"indomain"`
	Goroot   []string   `json:"goroot"`
	Gopaths  []struct {
		Remote []string `json:"remote"`
		Local  []string `json:"local"`
	} `json:"gopaths"`
	Gomods []struct {
		Root []string `json:"root"`
		Pkg  string   `json:"pkg"`
	} `json:"gomods"`
	Locs []pathsLoc `json:"locs"`
}

// (two directory names of the remote machine are not ASCII; byte order among siblings is unchanged:
// /Qü < /R, and under /R: Sé < fa)
var atomName = map[string]string{"x": "x.go", "y": "y.go", "z": "z.go", "gomod": "go.mod", "testdir": "_test", "testmain": "_testmain.go", "S": "Sé", "Q": "Qü"}

func atomsToPath(a []string, T string) string {
	if len(a) == 0 {
		return ""
	}
	var parts []string
	for i, x := range a {
		if i == 0 && x == "T" {
			parts = append(parts, T)
			continue
		}
		if n, ok := atomName[x]; ok {
			x = n
		}
		if i == 0 {
			x = "/" + x
		}
		parts = append(parts, x)
	}
	return strings.Join(parts, "/")
}

func relPath(a []string) string {
	var parts []string
	for _, x := range a {
		if n, ok := atomName[x]; ok {
			x = n
		}
		parts = append(parts, x)
	}
	return strings.Join(parts, "/")
}

var classLoc = map[string]stack.Location{"Unknown": stack.LocationUnknown, "GoMod": stack.GoMod, "GOPATH": stack.GOPATH, "GoPkg": stack.GoPkg, "Stdlib": stack.Stdlib}

func checkPathsCase(res *Result, pc *pathsCase, T string, idx int) {
	// materialise
	var made []string
	for _, f := range pc.Fs {
		p := atomsToPath(f, T)
		_ = os.MkdirAll(filepath.Dir(p), 0o755)
		content := "package p\n"
		// the module directive is not always at the top of go.mod: a licence header of several KiB in some layouts
		hdr := ""
		if idx%3 == 1 {
			hdr = strings.Repeat("// a line of the licence header that some projects put in front of everything\n", 80)
		}
		if strings.HasSuffix(p, "W2/go.mod") {
			content = hdr + "module example.com/M2\n\ngo 1.20\n"
		} else if strings.HasSuffix(p, "go.mod") {
			content = hdr + "module example.com/M\n\ngo 1.20\n"
			if idx%3 == 2 {
				// and a go.mod without a module directive further down (W/fa/go.mod): not a module root
				q := filepath.Join(filepath.Dir(p), "fa", "go.mod")
				_ = os.MkdirAll(filepath.Dir(q), 0o755)
				_ = os.WriteFile(q, []byte("// placeholder\n\ngo 1.20\n"), 0o644)
				made = append(made, q)
			}
		}
		_ = os.WriteFile(p, []byte(content), 0o644)
		made = append(made, p)
	}
	defer func() {
		for _, p := range made {
			_ = os.Remove(p)
		}
	}()
	// The frames always sit in call stacks (only those take part in root detection); the shape of
	// the dump around them varies: 0 one goroutine; 1 plus a "created by" frame that repeats one of
	// the frames; 2 plus a "created by" frame under none of the roots; 3 two goroutines, the first
	// created from outside the roots.
	// 4 (in-domain layouts holding both kinds of frames): three goroutines - a first one elsewhere, one
	// whose frames are all standard library, one with the user-code frames created from outside the
	// roots - for the ordering contract (C13) end to end.
	variant := idx % 5
	const outside = "/zzz/elsewhere/spawn.go"
	const elsewhere = "/zzz/elsewhere/main.go"
	order := make([]int, len(pc.Frames)) // order[j]: which frame of the case the j-th printed frame is
	for i := range order {
		order[i] = i
	}
	var stdIdx, userIdx []int
	for i := range pc.Frames {
		switch pc.Locs[i].Class {
		case "Stdlib":
			stdIdx = append(stdIdx, i)
		case "GoMod", "GOPATH", "GoPkg":
			userIdx = append(userIdx, i)
		}
	}
	if variant == 4 && !(pc.InDomain && len(stdIdx) > 0 && len(userIdx) > 0 && len(stdIdx)+len(userIdx) == len(pc.Frames)) {
		variant = 0
	}
	var sb strings.Builder
	createdCopy := -1
	if variant == 4 {
		order = append(append([]int{}, stdIdx...), userIdx...)
		fmt.Fprintf(&sb, "goroutine 1 [running]:\nexample.com/zz.first()\n\t%s:5 +0x1\n\ngoroutine 2 [running]:\n", elsewhere)
		for _, i := range stdIdx {
			fmt.Fprintf(&sb, "example.com/zz.f%d()\n\t%s:%d +0x1\n", i, atomsToPath(pc.Frames[i], T), 10+i)
		}
		sb.WriteString("\ngoroutine 3 [running]:\n")
		for _, i := range userIdx {
			fmt.Fprintf(&sb, "example.com/zz.f%d()\n\t%s:%d +0x1\n", i, atomsToPath(pc.Frames[i], T), 10+i)
		}
		fmt.Fprintf(&sb, "created by example.com/zz.spawn\n\t%s:7 +0x1\n", outside)
	} else {
		sb.WriteString("goroutine 1 [running]:\n")
		split := len(pc.Frames)
		if variant == 3 && len(pc.Frames) > 1 {
			split = (len(pc.Frames) + 1) / 2
		}
		for i, f := range pc.Frames {
			if i == split {
				fmt.Fprintf(&sb, "created by example.com/zz.spawn\n\t%s:7 +0x1\n\ngoroutine 2 [running]:\n", outside)
			}
			fmt.Fprintf(&sb, "example.com/zz.f%d()\n\t%s:%d +0x1\n", i, atomsToPath(f, T), 10+i)
		}
		switch {
		case variant == 1 && len(pc.Frames) > 0:
			createdCopy = (idx / 5) % len(pc.Frames)
			fmt.Fprintf(&sb, "created by example.com/zz.spawn\n\t%s:7 +0x1\n", atomsToPath(pc.Frames[createdCopy], T))
		case variant == 2 || (variant == 3 && split == len(pc.Frames)):
			fmt.Fprintf(&sb, "created by example.com/zz.spawn\n\t%s:7 +0x1\n", outside)
		}
	}
	opts := &stack.Opts{LocalGOROOT: T + "/G", LocalGOPATHs: []string{T + "/P", T + "/V"}, GuessPaths: true}
	mk := func(prop, aspect, what string, exp, got interface{}) Finding {
		return Finding{Property: prop, Aspect: aspect, What: fmt.Sprintf("paths case %d: %s", idx, what), Case: pc, Input: []byte(sb.String()), Expected: exp, Observed: got}
	}
	var first *stack.Snapshot
	for rep := 0; rep < 4; rep++ {
		var s *stack.Snapshot
		pan := func() (p string) {
			defer func() {
				if r := recover(); r != nil {
					p = fmt.Sprint(r)
				}
			}()
			s, _, _ = stack.ScanSnapshot(strings.NewReader(sb.String()), discard{}, opts)
			return ""
		}()
		if pan != "" {
			res.violation(mk("C03", "panic", "ScanSnapshot with GuessPaths panicked: "+pan, nil, pan))
			res.violation(mk("C18", "panic", "ScanSnapshot with GuessPaths panicked: "+pan, nil, pan))
			return
		}
		ncalls := 0
		if s != nil {
			for _, g := range s.Goroutines {
				for i := range g.Stack.Calls {
					if g.Stack.Calls[i].RemoteSrcPath != elsewhere {
						ncalls++
					}
				}
			}
		}
		if s == nil || ncalls != len(pc.Frames) {
			res.violation(mk("C01", "parse", "dump did not parse back", nil, nil))
			return
		}
		if rep == 0 {
			first = s
			continue
		}
		if !reflect.DeepEqual(first, s) {
			res.violation(mk("C06", "paths-repeat", "the same dump, options and files give a different snapshot on repetition", nil, nil))
			return
		}
	}
	s := first
	// roots
	wantGP := map[string]string{}
	for _, g := range pc.Gopaths {
		wantGP[atomsToPath(g.Remote, T)] = atomsToPath(g.Local, T)
	}
	wantGM := map[string]string{}
	for _, m := range pc.Gomods {
		pkg := m.Pkg
		if pkg == "M" || pkg == "M2" {
			pkg = "example.com/" + pkg
		}
		wantGM[atomsToPath(m.Root, T)] = pkg
	}
	gotRoots := map[string]interface{}{"goroot": s.RemoteGOROOT, "gopaths": s.RemoteGOPATHs, "gomods": s.LocalGomods}
	wantRoots := map[string]interface{}{"goroot": atomsToPath(pc.Goroot, T), "gopaths": wantGP, "gomods": wantGM}
	// property level, on the real values: every detected remote root prefixes a frame
	rootBad := ""
	prefixes := func(root string) bool {
		for _, f := range pc.Frames {
			if strings.HasPrefix(atomsToPath(f, T), root+"/") {
				return true
			}
		}
		return false
	}
	if s.RemoteGOROOT != "" && !prefixes(s.RemoteGOROOT+"/src") {
		rootBad = "RemoteGOROOT " + s.RemoteGOROOT + " prefixes no frame"
	}
	for r := range s.RemoteGOPATHs {
		if !prefixes(r+"/src") && !prefixes(r+"/pkg/mod") {
			rootBad = "remote GOPATH " + r + " prefixes no frame"
		}
	}
	for r := range s.LocalGomods {
		if !prefixes(r) {
			rootBad = "module root " + r + " prefixes no frame"
		}
	}
	if rootBad != "" {
		res.violation(mk("C18", "roots", rootBad, wantRoots, gotRoots))
		return
	}
	if s.RemoteGOROOT != atomsToPath(pc.Goroot, T) || !reflect.DeepEqual(s.RemoteGOPATHs, wantGP) || !reflect.DeepEqual(s.LocalGomods, wantGM) {
		f := mk("C18", "roots", "detected roots differ from the specification's transcription", wantRoots, gotRoots)
		if pc.InDomain {
			// inside the fidelity domain the frames below decide; roots are compared for the record
			res.drift(f)
		} else {
			res.drift(f)
			return
		}
	}
	// each detected remote root prefixes a frame it explains (checked on the real values too)
	if variant == 4 {
		// C13 end to end: goroutine 3 holds module / GOPATH / module-cache code (by the layout), goroutine 2
		// only standard library: 3's bucket is shown before 2's, after the first goroutine's
		if a := safeAggregate(s); a == nil {
			res.violation(mk("C13", "panic", "aggregating the located snapshot panicked", nil, nil))
		} else if p1, p2, p3 := bucketPos(a, 1), bucketPos(a, 2), bucketPos(a, 3); p1 != 0 || p3 > p2 {
			res.violation(mk("C13", "contract-located", fmt.Sprintf("buckets of goroutines 1 (first), 3 (user code per the layout) and 2 (standard library only) are shown at positions %d, %d, %d: a bucket whose frames are all standard library must come after every bucket with module, GOPATH or module-cache code", p1, p3, p2),
				[]int{0, 1, 2}, []int{p1, p3, p2}))
		}
		res.count("located_order_checks", 1)
	}
	var calls []*stack.Call
	for _, g := range s.Goroutines {
		for i := range g.Stack.Calls {
			if g.Stack.Calls[i].RemoteSrcPath != elsewhere {
				calls = append(calls, &g.Stack.Calls[i])
			}
		}
	}
	// the frame a goroutine was created from is located with the same roots
	for _, g := range s.Goroutines {
		for i := range g.CreatedBy.Calls {
			c := &g.CreatedBy.Calls[i]
			got := map[string]interface{}{"class": c.Location.String(), "local": c.LocalSrcPath, "rel": c.RelSrcPath}
			if c.RemoteSrcPath == outside {
				if c.Location != stack.LocationUnknown || c.LocalSrcPath != "" {
					res.violation(mk("C18", "created-outside", "a 'created by' frame under none of the detected roots got a location or a local path", map[string]interface{}{"class": "Unknown", "local": ""}, got))
					return
				}
				continue
			}
			if createdCopy >= 0 {
				l := &pc.Locs[createdCopy]
				if c.Location != classLoc[l.Class] || c.LocalSrcPath != atomsToPath(l.Local, T) || c.RelSrcPath != relPath(l.Rel) {
					f := mk("C18", "created", fmt.Sprintf("the 'created by' frame %s is mapped differently from the stack frame with the same path", c.RemoteSrcPath),
						map[string]interface{}{"class": l.Class, "local": atomsToPath(l.Local, T), "rel": relPath(l.Rel)}, got)
					if sc := calls[createdCopy]; sc.Location != c.Location || sc.LocalSrcPath != c.LocalSrcPath || sc.RelSrcPath != c.RelSrcPath {
						res.violation(f) // the same path mapped in two ways inside one snapshot
					} else if pc.InDomain {
						res.violation(f)
					} else {
						res.drift(f)
					}
					return
				}
			}
		}
	}
	for i := range calls {
		c := calls[i]
		l := &pc.Locs[order[i]]
		want := map[string]interface{}{"class": l.Class, "local": atomsToPath(l.Local, T), "rel": relPath(l.Rel)}
		got := map[string]interface{}{"class": c.Location.String(), "local": c.LocalSrcPath, "rel": c.RelSrcPath, "import": c.ImportPath}
		bad := c.Location != classLoc[l.Class] || c.LocalSrcPath != atomsToPath(l.Local, T) || c.RelSrcPath != relPath(l.Rel)
		if !bad && l.Class != "Unknown" && len(l.Imp) > 0 {
			imp := relPath(l.Imp)
			if l.Class == "GoMod" {
				pkg := l.Imp[0]
				if pkg == "M" || pkg == "M2" {
					pkg = "example.com/" + pkg
				}
				imp = pkg
				if len(l.Imp) > 1 {
					imp += "/" + relPath(l.Imp[1:])
				}
			}
			want["import"] = imp
			if c.ImportPath != imp {
				bad = true
			}
		}
		if !bad && c.LocalSrcPath != "" && !strings.HasSuffix(c.LocalSrcPath, c.RelSrcPath) {
			bad = true
		}
		// generic, on the real values: a frame that got a location lies under one of the detected roots (a
		// root followed by a path separator), and its relative path is relative
		if c.Location != stack.LocationUnknown && c.RemoteSrcPath != "" && !strings.HasSuffix(c.RemoteSrcPath, "_test/_testmain.go") {
			under := false
			roots := []string{}
			if s.RemoteGOROOT != "" {
				roots = append(roots, s.RemoteGOROOT+"/src")
			}
			for r := range s.RemoteGOPATHs {
				roots = append(roots, r+"/src", r+"/pkg/mod")
			}
			for r := range s.LocalGomods {
				roots = append(roots, r)
			}
			for _, r := range roots {
				if strings.HasPrefix(c.RemoteSrcPath, r+"/") {
					under = true
				}
			}
			if !under || strings.HasPrefix(c.RelSrcPath, "/") {
				res.violation(mk("C18", "located-without-root", fmt.Sprintf("frame %s is classed %s (relative path %q) although it lies under none of the detected roots %v", c.RemoteSrcPath, c.Location, c.RelSrcPath, roots), want, got))
				return
			}
		}
		if bad {
			f := mk("C18", "frame", fmt.Sprintf("frame %s is mapped differently from the specification", c.RemoteSrcPath), want, got)
			if pc.InDomain || (c.LocalSrcPath != "" && !strings.HasSuffix(c.LocalSrcPath, c.RelSrcPath)) || (c.Location == stack.LocationUnknown && c.LocalSrcPath != "") {
				res.violation(f) // in the fidelity domain the specification's mapping is the ground truth
			} else {
				res.drift(f) // nested roots / pseudo-modules: only the generic clauses are required
			}
			return
		}
	}
}

func init() {
	register("paths", "C18: replay MC_Paths layouts on real directories", func(args []string) error {
		c := newCommon("paths")
		_ = c.fs.Parse(args)
		res := newResult("one case = a layout (which local files exist under a Go root, two GOPATHs incl. a module cache, a go.mod module; how the remote machine named its Go root and GOPATH; which frames the dump holds, incl. unrelated paths, a local-suffix-without-src path and go test's main) with the roots and per-frame locations Paths.tla computes; materialised in a scratch directory and parsed with GuessPaths; non-trivial = at least one frame gets a location")
		var cases []pathsCase
		err := scanTLC(*c.in, func(tag string, js []byte) error {
			if tag == "CASE" {
				var pc pathsCase
				if err := json.Unmarshal(js, &pc); err != nil {
					return err
				}
				pc.raw = string(js)
				cases = append(cases, pc)
			}
			return nil
		})
		if err != nil {
			return err
		}
		if len(cases) == 0 {
			res.infra("no cases")
			return res.write(*c.out)
		}
		sortByKey(len(cases), func(i int) string { return cases[i].raw }, func(i, j int) { cases[i], cases[j] = cases[j], cases[i] })
		if *c.limit > 0 && len(cases) > *c.limit {
			rng := rand.New(rand.NewSource(*c.seed))
			rng.Shuffle(len(cases), func(i, j int) { cases[i], cases[j] = cases[j], cases[i] })
			cases = cases[:*c.limit]
		}
		root, err := os.MkdirTemp("", "vh-paths-")
		if err != nil {
			return err
		}
		defer os.RemoveAll(root)
		var wg sync.WaitGroup
		ch := make(chan int, 64)
		for w := 0; w < runtime.NumCPU(); w++ {
			wg.Add(1)
			go func(w int) {
				defer wg.Done()
				T := filepath.ToSlash(filepath.Join(root, fmt.Sprintf("w%d", w)))
				for i := range ch {
					pc := &cases[i]
					checkPathsCase(res, pc, T, i)
					nontrivial := false
					for _, l := range pc.Locs {
						if l.Class != "Unknown" {
							nontrivial = true
						}
					}
					res.eval(pc.raw, nontrivial, sampleEvery(i, 997, pc))
				}
			}(w)
		}
		for i := range cases {
			ch <- i
		}
		close(ch)
		wg.Wait()
		return res.write(*c.out)
	})
}
