package main

import (
	"encoding/json"
	"fmt"
	"os"
	"path/filepath"
	"reflect"
	"runtime"
	"strings"
	"sync"

	"github.com/maruel/panicparse/v2/stack"
)

// C19, which function's parameter types are applied: replay of MC_Lookup's
// source layouts (spec/Augment.tla, second half). Every declaration of a
// layout gets a signature of its own, so that types taken from a neighbouring
// function give a rendering that differs from the truthful one.

type lookDecl struct {
	First int   `json:"first"`
	Last  int   `json:"last"`
	Stmts []int `json:"stmts"`
}

type lookCase struct {
	raw  string
	Lay  []lookDecl `json:"lay"`
	L    int        `json:"l"`
	Encl int        `json:"encl"`
	Want int        `json:"want"`
}

// signature, printed words and truthful rendering per declaration index
var lookSigs = []struct {
	sig   string
	words string
	want  []string
}{
	{"a int, b int8", "0x7b, 0xfb", []string{"123", "-5"}},
	{"s string, ok bool", "{0x4b5f3a, 0x5}, 0x1", []string{"string(0x4b5f3a, len=5)", "true"}},
	{"x float64, y uint16, z int32", "0xc004000000000000, 0xffff, 0xfffffffe", []string{"-2.5", "65535", "-2"}},
}

const lookHeader = 2 // "package main" and a blank line in front of model line 1

// lookSource lays the declarations out exactly on their model lines.
func lookSource(lay []lookDecl) string {
	max := 0
	for _, d := range lay {
		if d.Last > max {
			max = d.Last
		}
	}
	lines := make([]string, max+1)
	for k, d := range lay {
		stmt := map[int]bool{}
		for _, s := range d.Stmts {
			stmt[s] = true
		}
		for ln := d.First; ln <= d.Last; ln++ {
			var parts []string
			if ln == d.First {
				parts = append(parts, fmt.Sprintf("func f%d(%s) {", k+1, lookSigs[k].sig))
			}
			if stmt[ln] {
				parts = append(parts, fmt.Sprintf("println(%d)", ln))
			}
			if ln == d.Last {
				parts = append(parts, "}")
			}
			lines[ln] = strings.Join(parts, " ")
		}
	}
	// (a comment with multi-byte characters in front: byte offsets and character offsets differ from here on)
	return "package main // " + strings.Repeat("é日", 40) + "\n\n" + strings.Join(lines[1:], "\n") + "\n"
}

func checkLookCase(res *Result, lc *lookCase, dir string, idx int) {
	// the file as gofmt leaves it, and without the final newline (generated code)
	checkLookCaseNL(res, lc, dir, idx, true)
	checkLookCaseNL(res, lc, dir, idx, false)
}

func checkLookCaseNL(res *Result, lc *lookCase, dir string, idx int, finalNL bool) {
	_ = os.MkdirAll(dir, 0o755)
	_ = os.WriteFile(filepath.Join(dir, "go.mod"), []byte("module example.com/look\n\ngo 1.20\n"), 0o644)
	src := lookSource(lc.Lay)
	if !finalNL {
		src = strings.TrimSuffix(src, "\n")
	}
	file := filepath.ToSlash(filepath.Join(dir, "main.go"))
	_ = os.WriteFile(filepath.Join(dir, "main.go"), []byte(src), 0o644)
	k := lc.Encl
	if k == 0 {
		k = 1 // the line lies in no function: sources that do not match; only harmlessness is judged
	}
	sig := lookSigs[k-1]
	dump := fmt.Sprintf("goroutine 1 [running]:\nmain.f%d(%s)\n\t%s:%d +0x1d\n", k, sig.words, file, lc.L+lookHeader)
	cs := map[string]interface{}{"layout": lc.Lay, "line": lc.L, "enclosing": lc.Encl, "specified": lc.Want, "source": src, "final_newline": finalNL}
	s, pan := scanWith(dump, &stack.Opts{LocalGOROOT: runtime.GOROOT(), GuessPaths: true, AnalyzeSources: true})
	if pan != "" {
		res.violation(Finding{Property: "C19", Aspect: "panic", What: fmt.Sprintf("lookup case %d: source analysis panicked: %s", idx, pan), Case: cs, Input: []byte(dump)})
		res.violation(Finding{Property: "C03", Aspect: "panic", What: "source analysis panicked: " + pan, Case: cs, Input: []byte(dump)})
		return
	}
	if s == nil || len(s.Goroutines) != 1 || len(s.Goroutines[0].Stack.Calls) != 1 {
		res.infra("lookup case %d: the dump did not parse into one frame", idx)
		return
	}
	c := &s.Goroutines[0].Stack.Calls[0]
	if c.LocalSrcPath == "" {
		res.infra("lookup case %d: the generated source was not located", idx)
		return
	}
	off, _ := scanWith(dump, &stack.Opts{LocalGOROOT: runtime.GOROOT(), GuessPaths: true})
	if off == nil || !reflect.DeepEqual(off.Goroutines[0].Stack.Calls[0].Args.Values, c.Args.Values) {
		res.violation(Finding{Property: "C19", Aspect: "values", What: fmt.Sprintf("lookup case %d: source analysis changed the raw argument values", idx), Case: cs, Input: []byte(dump)})
		return
	}
	if lc.Encl == 0 {
		return
	}
	got := c.Args.Processed
	switch {
	case len(got) == 0:
		if lc.Want != 0 {
			res.drift(Finding{Property: "C19", Aspect: "lookup-missed", What: fmt.Sprintf("lookup case %d: the frame's function is not found in the sources (arguments left unprocessed) where the specification finds it", idx), Case: cs, Expected: sig.want, Observed: got})
		}
	case !reflect.DeepEqual(got, sig.want):
		res.violation(Finding{Property: "C19", Aspect: "lookup", What: fmt.Sprintf("lookup case %d: frame main.f%d(%s) reported on line %d of its function (lines %d-%d) is rendered as %v: those are not the values passed (%v)", idx, k, sig.words, lc.L, lc.Lay[k-1].First, lc.Lay[k-1].Last, got, sig.want),
			Case: cs, Input: []byte(dump), Expected: sig.want, Observed: got})
	case lc.Want == 0:
		res.drift(Finding{Property: "C19", Aspect: "lookup-found", What: fmt.Sprintf("lookup case %d: the frame's function is found (and rendered truthfully) where the specification leaves the arguments unprocessed", idx), Case: cs, Observed: got})
	}
}

func init() {
	register("lookup", "C19: which function's types are applied - replay of MC_Lookup source layouts", func(args []string) error {
		c := newCommon("lookup")
		_ = c.fs.Parse(args)
		res := newResult("one case = (source layout of up to MaxDecl function declarations with distinct signatures placed on exact lines, statements on any subset of their lines incl. the declaration line and the closing-brace line, frame line) from MC_Lookup; the frame names the function the line lies in and carries that function's words; a typed rendering must be the truthful one for that function; non-trivial = at least two declarations and the line lies in a function")
		var cases []lookCase
		err := scanTLC(*c.in, func(tag string, js []byte) error {
			if tag == "CASE" {
				var lc lookCase
				if err := json.Unmarshal(js, &lc); err != nil {
					return err
				}
				lc.raw = string(js)
				cases = append(cases, lc)
			}
			return nil
		})
		if err != nil {
			return err
		}
		if len(cases) == 0 {
			res.infra("no cases")
			return res.write(*c.out)
		}
		sortByKey(len(cases), func(i int) string { return cases[i].raw }, func(i, j int) { cases[i], cases[j] = cases[j], cases[i] })
		root, err := os.MkdirTemp("", "vh-look-")
		if err != nil {
			return err
		}
		defer os.RemoveAll(root)
		var wg sync.WaitGroup
		ch := make(chan int, 64)
		for w := 0; w < runtime.NumCPU(); w++ {
			wg.Add(1)
			go func(w int) {
				defer wg.Done()
				for i := range ch {
					lc := &cases[i]
					if len(lc.Lay) > len(lookSigs) {
						res.infra("layout with %d declarations: only %d signatures", len(lc.Lay), len(lookSigs))
						continue
					}
					dir := filepath.Join(root, fmt.Sprintf("w%d_%d", w, i))
					checkLookCase(res, lc, dir, i)
					_ = os.RemoveAll(dir)
					res.eval(lc.raw, len(lc.Lay) >= 2 && lc.Encl != 0, sampleEvery(i, 1499, lc))
				}
			}(w)
		}
		for i := range cases {
			ch <- i
		}
		close(ch)
		wg.Wait()
		return res.write(*c.out)
	})
}
