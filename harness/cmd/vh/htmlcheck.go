package main

import (
	"bytes"
	"encoding/json"
	"fmt"
	"html"
	"html/template"
	"io"
	"log"
	"math/rand"
	"net/url"
	"reflect"
	"runtime"
	"strings"
	"sync"

	"github.com/maruel/panicparse/v2/stack"
)

// C17: replay of MC_Html branches. Every string field of the snapshot carries a
// hostile payload; the rendered document is tokenised by a small HTML
// tokenizer and compared, tag by tag, with the rendering of the same snapshot
// with harmless strings of the same shape.

type htmlTok struct {
	Kind  string // "start" | "end" | "text"
	Name  string
	Attrs [][2]string
	Text  string
}

// tokenizeHTML is a small tokenizer, enough for the (machine generated) output
// of html/template: doctype, comments, raw text of <style>, tags with quoted or
// unquoted attribute values, text.
func tokenizeHTML(doc string) ([]htmlTok, error) {
	var toks []htmlTok
	i := 0
	for i < len(doc) {
		if doc[i] != '<' {
			j := strings.IndexByte(doc[i:], '<')
			if j < 0 {
				j = len(doc) - i
			}
			toks = append(toks, htmlTok{Kind: "text", Text: html.UnescapeString(doc[i : i+j])})
			i += j
			continue
		}
		if strings.HasPrefix(doc[i:], "<!--") {
			j := strings.Index(doc[i:], "-->")
			if j < 0 {
				return toks, fmt.Errorf("unterminated comment at %d", i)
			}
			i += j + 3
			continue
		}
		if strings.HasPrefix(doc[i:], "<!") {
			j := strings.IndexByte(doc[i:], '>')
			if j < 0 {
				return toks, fmt.Errorf("unterminated declaration at %d", i)
			}
			i += j + 1
			continue
		}
		// a tag
		j := i + 1
		end := false
		if j < len(doc) && doc[j] == '/' {
			end = true
			j++
		}
		k := j
		for k < len(doc) && (doc[k] >= 'a' && doc[k] <= 'z' || doc[k] >= 'A' && doc[k] <= 'Z' || doc[k] >= '0' && doc[k] <= '9') {
			k++
		}
		if k == j {
			// a lone '<' in text (must not happen in escaped output)
			return toks, fmt.Errorf("raw '<' at %d: %q", i, doc[i:min(i+40, len(doc))])
		}
		t := htmlTok{Kind: "start", Name: strings.ToLower(doc[j:k])}
		if end {
			t.Kind = "end"
		}
		// attributes
		for {
			for k < len(doc) && (doc[k] == ' ' || doc[k] == '\n' || doc[k] == '\t' || doc[k] == '\r' || doc[k] == '/') {
				k++
			}
			if k >= len(doc) {
				return toks, fmt.Errorf("unterminated tag at %d", i)
			}
			if doc[k] == '>' {
				k++
				break
			}
			a := k
			for k < len(doc) && doc[k] != '=' && doc[k] != '>' && doc[k] != ' ' && doc[k] != '\n' && doc[k] != '/' {
				k++
			}
			name := strings.ToLower(doc[a:k])
			val := ""
			if k < len(doc) && doc[k] == '=' {
				k++
				if k < len(doc) && (doc[k] == '"' || doc[k] == '\'') {
					q := doc[k]
					e := strings.IndexByte(doc[k+1:], q)
					if e < 0 {
						return toks, fmt.Errorf("unterminated attribute value at %d", k)
					}
					val = doc[k+1 : k+1+e]
					k += e + 2
				} else {
					a2 := k
					for k < len(doc) && doc[k] != ' ' && doc[k] != '>' && doc[k] != '\n' {
						k++
					}
					val = doc[a2:k]
				}
			}
			t.Attrs = append(t.Attrs, [2]string{name, html.UnescapeString(val)})
		}
		toks = append(toks, t)
		i = k
		if t.Kind == "start" && (t.Name == "style" || t.Name == "script") {
			e := strings.Index(doc[i:], "</"+t.Name)
			if e < 0 {
				return toks, fmt.Errorf("unterminated <%s>", t.Name)
			}
			toks = append(toks, htmlTok{Kind: "text", Text: doc[i : i+e]})
			i += e
		}
	}
	return toks, nil
}

func min(a, b int) int {
	if a < b {
		return a
	}
	return b
}

type htmlBranch struct {
	Loc       string `json:"loc"`
	Rel       string `json:"rel"`
	Local     bool   `json:"local"`
	Remote    bool   `json:"remote"`
	HasImport bool   `json:"hasimport"`
	Exported  bool   `json:"exported"`
	Main      bool   `json:"main"`
	Kind      string `json:"kind"`
}

type htmlCase struct {
	raw     string
	B       htmlBranch `json:"b"`
	Src     string     `json:"src"`
	Pkg     string     `json:"pkg"`
	RawRepo bool       `json:"rawrepo"`
}

const marker = "PWN3D"

var htmlPayloads = []string{
	`"><script>alert(` + marker + `)</script>`,
	`' onmouseover='alert(` + marker + `)`,
	`" onclick="alert(` + marker + `)" x="`,
	`javascript:alert(` + marker + `)`,
	`</a><img src=x onerror=alert(` + marker + `)>`,
	`{{.` + marker + `}}`,
	"\x00" + marker + "\x00",
	`été ☃ ` + marker,
	`%0a%0d` + marker + `%22%3e`,
	`<!-- ` + marker + ` -->`,
	`</style><script>` + marker + `</script>`,
	`&lt;` + marker + `&gt;&amp;`,
	` ` + marker + ` `,
	`\` + marker + `\"`,
	`w%41rk?q=` + marker + `#frag`,
	`100%25?` + marker,
}

// mkStr returns the payload for a field (hostile) or a harmless string of the same role (benign).
func mkStr(hostile bool, rng *rand.Rand, role string) string {
	if !hostile {
		return "safe" + role
	}
	return htmlPayloads[rng.Intn(len(htmlPayloads))] + role
}

func relOf(shape string, s func(string) string) string {
	switch shape {
	case "empty":
		return ""
	case "github3":
		return "github.com/" + s("owner") + "/" + s("repo") + "/" + s("rest") + "/f.go"
	case "github3ver":
		return "github.com/" + s("owner") + "/" + s("repo") + "@v1.2.3" + s("ver") + "/" + s("rest") + "/f.go"
	case "github3verodd": // a version that does not start with 'v'
		return "github.com/" + s("owner") + "/" + s("repo") + "@1.0" + s("ver") + "/" + s("rest") + "/f.go"
	case "github3atfile": // no version on the repository element; an '@' in the file name
		return "github.com/" + s("owner") + "/" + s("repo") + "/" + s("rest") + "/gen@" + s("at") + ".go"
	case "otherhostatdir": // a directory whose name ends in '@'
		return "example.com/" + s("p") + "@/svc/svc.go"
	case "github3pseudo":
		return "github.com/" + s("owner") + "/" + s("repo") + "@v0.0.0-20200223170610-d5e6a3e2c0ae/" + s("rest") + "/f.go"
	case "githubshort":
		return "github.com/" + s("owner")
	case "golangx":
		return "golang.org/x/" + s("repo") + "/" + s("rest") + "/f.go"
	case "golangxver":
		return "golang.org/x/" + s("repo") + "@v0.1.0" + s("ver") + "/" + s("rest") + "/f.go"
	case "golangother":
		return "golang.org/" + s("a") + "/" + s("b") + "/" + s("c") + ".go"
	case "otherhost":
		return "gopkg.in/" + s("p") + "/f.go"
	case "otherhostver":
		return "gopkg.in/" + s("p") + "@v2" + s("ver") + "/f.go"
	case "otherhostat":
		return "gopkg.in/" + s("p") + "/gen@v2" + s("at") + ".go"
	case "vendorgithub":
		return s("a") + "/vendor/github.com/" + s("owner") + "/" + s("repo") + "/p.go"
	case "nodir":
		return strings.ReplaceAll(s("nodir"), "/", "_") + ".go"
	}
	return ""
}

func buildHTMLSnapshot(b *htmlBranch, hostile bool, seed int64) (*stack.Snapshot, *stack.Aggregated) {
	rng := rand.New(rand.NewSource(seed))
	s := func(role string) string { return mkStr(hostile, rng, role) }
	noslash := func(x string) string { return strings.ReplaceAll(x, "/", "_") }
	mkCall := func(tag string) stack.Call {
		c := stack.Call{Location: locOf[b.Loc], Line: 42}
		c.Func = stack.Func{Complete: s(tag + "complete"), ImportPath: s(tag + "fimport"), DirName: s(tag + "dir"), Name: s(tag+"name") + ".(*T)." + s(tag+"method"), IsExported: b.Exported, IsPkgMain: b.Main}
		if hostile {
			// names that only look like methods: an opening parenthesis that is never closed, only a
			// receiver, a trailing parenthesis
			switch rng.Intn(5) {
			case 1:
				c.Func.Name = "(*Conn" + strings.ReplaceAll(s(tag+"name"), ")", "]")
			case 2:
				c.Func.Name = "(" + strings.ReplaceAll(s(tag+"name"), ")", "]")
			case 3:
				c.Func.Name = "(" + s(tag+"name") + ")"
			case 4:
				c.Func.Name = s(tag+"name") + "("
			}
		}
		if b.HasImport {
			c.ImportPath = s(tag+"import") + "/vendor/" + s(tag+"import2")
		}
		c.RelSrcPath = relOf(b.Rel, func(r string) string { return noslash(s(tag + r)) })
		if b.Local {
			c.LocalSrcPath = "/" + s(tag+"local") + "/x.go"
			if b.Rel == "nodir" {
				c.LocalSrcPath = noslash(s(tag+"local")) + ".go"
			}
		}
		if b.Remote {
			c.RemoteSrcPath = "/" + s(tag+"remote") + "/y.go"
			if hostile {
				// paths that are not rooted (binaries built with -trimpath, Windows, or just hostile text):
				// whatever stands in front of the first ':' must not become the link's scheme
				switch rng.Intn(4) {
				case 1:
					c.RemoteSrcPath = "javascript:alert(1)//" + noslash(s(tag+"remote")) + "/y.go"
				case 2:
					c.RemoteSrcPath = "c:/" + s(tag+"remote") + "/y.go"
				case 3:
					c.RemoteSrcPath = "vbscript:" + noslash(s(tag+"remote")) + "/sub/y.go"
				}
			}
			if b.Rel == "nodir" {
				c.RemoteSrcPath = noslash(s(tag+"remote")) + ".go"
			}
		}
		c.SrcName = s(tag + "srcname")
		c.DirSrc = s(tag + "dirsrc")
		c.Args = stack.Args{Values: []stack.Arg{{Value: 1, Name: s(tag + "argname")}, {IsAggregate: true, Fields: stack.Args{Values: []stack.Arg{{Value: 2}, {Name: s(tag + "nested")}}, Elided: true}}}, Elided: true}
		if rng.Intn(2) == 0 {
			c.Args.Processed = []string{s(tag + "processed"), s(tag + "processed2")}
		}
		return c
	}
	mkSigN := func(n int) stack.Signature {
		sg := stack.Signature{State: s(fmt.Sprint("state", n)), SleepMin: 1, SleepMax: 3, Locked: true}
		sg.Stack.Calls = []stack.Call{mkCall(fmt.Sprint("a", n)), mkCall(fmt.Sprint("b", n))}
		sg.Stack.Elided = true
		sg.CreatedBy.Calls = []stack.Call{mkCall(fmt.Sprint("c", n))}
		return sg
	}
	snap := &stack.Snapshot{LocalGOROOT: s("lgoroot"), RemoteGOROOT: s("rgoroot"), LocalGOPATHs: []string{s("gp1"), s("gp2")},
		RemoteGOPATHs: map[string]string{s("rgp"): s("lgp")}, LocalGomods: map[string]string{s("modk"): s("modv"), s("modk2"): s("modv2")}}
	for n := 1; n <= 3; n++ {
		g := &stack.Goroutine{Signature: mkSigN(n), ID: []int{7, 9, 4}[n-1], First: n == 1} // printed order is not id order
		if b.Kind == "race" {
			g.RaceAddr = 0xc000012340
			g.RaceWrite = n == 1
		}
		snap.Goroutines = append(snap.Goroutines, g)
	}
	agg := &stack.Aggregated{Snapshot: snap}
	for n, g := range snap.Goroutines {
		agg.Buckets = append(agg.Buckets, &stack.Bucket{Signature: g.Signature, IDs: []int{g.ID, 10 + n}, First: g.First})
	}
	return snap, agg
}

func renderHTML(b *htmlBranch, hostile bool, seed int64) (doc string, err error, pan string, mutated bool) {
	snap, agg := buildHTMLSnapshot(b, hostile, seed)
	pristine, _ := buildHTMLSnapshot(b, hostile, seed) // the same value, built again
	defer func() {
		mutated = !reflect.DeepEqual(pristine.Goroutines, snap.Goroutines)
	}()
	var buf bytes.Buffer
	pan = func() (p string) {
		defer func() {
			if r := recover(); r != nil {
				p = fmt.Sprint(r)
			}
		}()
		if b.Kind == "aggregated" {
			err = agg.ToHTML(&buf, template.HTML(""))
		} else {
			err = snap.ToHTML(&buf, template.HTML(""))
		}
		return ""
	}()
	doc = buf.String()
	return
}

var allowedPrefixes = []string{"https://github.com/", "https://golang.org/pkg/", "https://godoc.org/", "https://pkg.go.dev/", "file:///", "data:image/gif;base64,"}

func checkHTMLCase(res *Result, hc *htmlCase, idx int, seed int64) {
	mk := func(aspect, what string, exp, got interface{}) Finding {
		return Finding{Property: "C17", Aspect: aspect, What: fmt.Sprintf("html case %d %+v: %s", idx, hc.B, what), Case: hc, Expected: exp, Observed: got}
	}
	doc, err, pan, mutated := renderHTML(&hc.B, true, seed)
	if mutated {
		f := mk("html-mutates", "rendering as HTML changed the snapshot it was given (compared with the same snapshot built again)", nil, nil)
		f.Property = "C14"
		res.violation(f)
	}
	if pan != "" {
		res.violation(mk("panic", "ToHTML panicked: "+pan, nil, pan))
		f := mk("panic", "ToHTML panicked: "+pan, nil, pan)
		f.Property = "C03"
		res.violation(f)
		return
	}
	if err != nil {
		res.violation(mk("error", fmt.Sprintf("ToHTML failed: %v", err), nil, fmt.Sprint(err)))
		return
	}
	ref, rerr, _, _ := renderHTML(&hc.B, false, seed)
	if rerr != nil {
		res.violation(mk("error", fmt.Sprintf("ToHTML failed on harmless strings: %v", rerr), nil, nil))
		return
	}
	if !strings.HasSuffix(strings.TrimSpace(doc), `<div class="bottom-padding"></div>`) {
		res.violation(mk("truncated", "the document does not reach its end", nil, doc[max(0, len(doc)-200):]))
		return
	}
	toks, terr := tokenizeHTML(doc)
	if terr != nil {
		res.violation(mk("markup", "dump content broke the markup: "+terr.Error(), nil, nil))
		return
	}
	rtoks, _ := tokenizeHTML(ref)
	// the same tags, with the same attribute names, in the same order as with harmless strings
	shape := func(ts []htmlTok) []string {
		var out []string
		for _, t := range ts {
			if t.Kind == "text" {
				continue
			}
			x := t.Kind + ":" + t.Name
			for _, a := range t.Attrs {
				x += " " + a[0]
			}
			out = append(out, x)
		}
		return out
	}
	hs, rs := shape(toks), shape(rtoks)
	if len(hs) != len(rs) {
		res.violation(mk("structure", fmt.Sprintf("%d tags with hostile strings, %d with harmless ones: dump content introduced or removed an element", len(hs), len(rs)), len(rs), len(hs)))
		return
	}
	for i := range hs {
		if hs[i] != rs[i] {
			res.violation(mk("structure", fmt.Sprintf("tag %d is %q, with harmless strings it is %q: dump content introduced an element or attribute", i, hs[i], rs[i]), rs[i], hs[i]))
			return
		}
	}
	// attributes: the marker may only occur inside href values; every href has a fixed scheme (and host)
	frameHrefs := []string{}
	for _, t := range toks {
		if t.Kind != "start" {
			continue
		}
		for _, a := range t.Attrs {
			if a[0] == "href" {
				ok := a[1] == ""
				for _, p := range allowedPrefixes {
					if strings.HasPrefix(a[1], p) {
						ok = true
					}
				}
				if !ok {
					res.violation(mk("scheme", "a link target does not start with a fixed https:, file: or data: prefix", allowedPrefixes, a[1]))
					return
				}
				if t.Name == "a" {
					frameHrefs = append(frameHrefs, a[1])
				}
			} else if strings.Contains(a[1], marker) {
				res.violation(mk("attribute", fmt.Sprintf("dump content reaches the %s attribute of <%s>", a[0], t.Name), nil, a[1]))
				return
			}
		}
	}
	// link targets are URL-escaped: decoding a file, documentation or standard-library source link
	// gives back exactly a path of the snapshot, and no '?' or '#' of the dump's own splits the target
	{
		hsnap, _ := buildHTMLSnapshot(&hc.B, true, seed)
		files, imps, rels := map[string]bool{}, map[string]bool{}, map[string]bool{}
		for _, g := range hsnap.Goroutines {
			for _, cs := range [][]stack.Call{g.Stack.Calls, g.CreatedBy.Calls} {
				for i := range cs {
					files[cs[i].LocalSrcPath], files[cs[i].RemoteSrcPath], rels[cs[i].RelSrcPath] = true, true, true
					imp := cs[i].ImportPath
					if j := strings.Index(imp, "/vendor/"); j != -1 {
						imp = imp[j+8:]
					}
					imps[imp] = true
				}
			}
		}
		stdsrc := "https://github.com/golang/go/blob/" + url.QueryEscape(runtime.Version()) + "/src/"
		for _, h := range frameHrefs {
			var rest, frag string
			var among map[string]bool
			switch {
			case strings.HasPrefix(h, "file:///"):
				rest, among = h[len("file:///"):], files
				if strings.Contains(rest, "#") {
					frag = "#"
				}
			case strings.HasPrefix(h, stdsrc):
				rest, among = strings.TrimSuffix(h[len(stdsrc):], "#L42"), rels
			default:
				for _, p := range []string{"https://golang.org/pkg/", "https://godoc.org/", "https://pkg.go.dev/"} {
					if strings.HasPrefix(h, p) {
						rest, among = h[len(p):], imps
						if j := strings.IndexByte(rest, '#'); j >= 0 {
							rest, frag = rest[:j], rest[j+1:]
						}
					}
				}
			}
			if among == nil {
				continue
			}
			dec, derr := url.PathUnescape(rest)
			if derr != nil || strings.ContainsAny(rest, "?#") || strings.ContainsAny(frag, "?#") || !among[dec] {
				res.violation(mk("url-escape", "a link target does not carry the dump's path URL-escaped: decoding it does not give back a path of the snapshot, or a '?' / '#' of the dump's own splits the target", nil, h))
				return
			}
		}
	}
	// the links of the frames start with the literal the specification predicts for this branch
	nsrc, npkg := 0, 0
	for _, h := range frameHrefs {
		switch {
		case hc.Src != "" && strings.HasPrefix(h, hc.Src):
			nsrc++
		case hc.Pkg != "" && strings.HasPrefix(h, hc.Pkg):
			npkg++
		case h == "":
		default:
			// still one of the fixed prefixes (checked above): which documentation / source host
			// a branch links to is not something C17 speaks about
			res.drift(mk("branch", "a frame link starts with another fixed prefix than the specification predicts for this branch", map[string]string{"src": hc.Src, "pkg": hc.Pkg}, h))
		}
	}
	if (hc.Src != "" && nsrc == 0) || (hc.Pkg != "" && npkg == 0) {
		res.drift(mk("branch", "the specification predicts a link that the document does not contain", map[string]string{"src": hc.Src, "pkg": hc.Pkg}, frameHrefs))
	}
	// completeness: every goroutine / bucket and every frame is in the document
	for _, role := range []string{"state1", "state2", "a1name", "b1name", "a2name", "b2name", "c1name", "c2name"} {
		found := false
		for _, t := range toks {
			if t.Kind == "text" && strings.Contains(t.Text, role) {
				found = true
			}
		}
		if !found {
			res.violation(mk("complete", "the text of "+role+" is missing from the document", role, nil))
			return
		}
	}
}

func max(a, b int) int {
	if a > b {
		return a
	}
	return b
}

func init() {
	register("html", "C17: replay MC_Html branches with hostile payloads in every string field", func(args []string) error {
		c := newCommon("html")
		rounds := c.fs.Int("rounds", 2, "payload draws per branch")
		_ = c.fs.Parse(args)
		log.SetOutput(io.Discard) // html.go logs "problematic URL" lines for some branches
		res := newResult("one case = one branch of the URL builders (location class x relative-path shape x local/remote path present x import path present x exported x main x aggregated/snapshot/race) with the link prefixes Html.tla predicts; every string field of a two-goroutine snapshot (states, symbols, paths, argument names and processed arguments, creators, roots, module map) carries a markup / attribute / URL payload with a marker; the document is tokenised and compared tag by tag with the rendering of harmless strings; non-trivial = every case")
		var cases []htmlCase
		err := scanTLC(*c.in, func(tag string, js []byte) error {
			if tag == "CASE" {
				var hc htmlCase
				if err := json.Unmarshal(js, &hc); err != nil {
					return err
				}
				hc.raw = string(js)
				cases = append(cases, hc)
			}
			return nil
		})
		if err != nil {
			return err
		}
		if len(cases) == 0 {
			res.infra("no cases")
			return res.write(*c.out)
		}
		sortByKey(len(cases), func(i int) string { return cases[i].raw }, func(i, j int) { cases[i], cases[j] = cases[j], cases[i] })
		if *c.limit > 0 && len(cases) > *c.limit {
			rng := rand.New(rand.NewSource(*c.seed))
			rng.Shuffle(len(cases), func(i, j int) { cases[i], cases[j] = cases[j], cases[i] })
			cases = cases[:*c.limit]
		}
		var wg sync.WaitGroup
		ch := make(chan int, 64)
		for w := 0; w < runtime.NumCPU(); w++ {
			wg.Add(1)
			go func() {
				defer wg.Done()
				for i := range ch {
					for r := 0; r < *rounds; r++ {
						checkHTMLCase(res, &cases[i], i, *c.seed*7907+int64(i)*13+int64(r))
					}
					res.eval(cases[i].raw, true, sampleEvery(i, 997, cases[i]))
				}
			}()
		}
		for i := range cases {
			ch <- i
		}
		close(ch)
		wg.Wait()
		return res.write(*c.out)
	})
}
