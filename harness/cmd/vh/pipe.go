package main

import (
	"bytes"
	"encoding/json"
	"fmt"
	"io"
	"math/rand"
	"reflect"
	"runtime"
	"strings"
	"sync"

	"github.com/maruel/panicparse/v2/stack"
)

// Replay of MC_Pipe behaviours (spec/MC_Pipe.tla, spec/Pipeline.tla): a stream
// given as indices into the alphabet TLC printed, and the calls the
// specification predicts under the resume protocol.

type absCall struct {
	Fn    string   `json:"fn"`
	Lead  []string `json:"lead"`
	File  string   `json:"file"`
	Flead []string `json:"flead"`
}

type absG struct {
	ID      int       `json:"id"`
	First   bool      `json:"first"`
	State   string    `json:"state"`
	Tok     string    `json:"tok"`
	Race    bool      `json:"race"`
	Elided  bool      `json:"elided"`
	Calls   []absCall `json:"calls"`
	Created []absCall `json:"created"`
}

type specCall struct {
	From int    `json:"from"`
	Fwd  []int  `json:"fwd"`
	Tail []int  `json:"tail"`
	Cons []int  `json:"cons"`
	K1   []int  `json:"k1"`
	K2   int    `json:"k2"`
	Snap []absG `json:"snap"`
	Stop int    `json:"stop"`
	Err  string `json:"err"`
	Ret  int    `json:"ret"`
}

type pipeCase struct {
	raw   string
	Inp   []int      `json:"inp"`
	Eol   string     `json:"eol"`
	Calls []specCall `json:"calls"`
	PP    ppSpec     `json:"pp"`
}

// ppSpec is Pipeline.tla's PP(FinalCalls): what the command writes, as items - a pass-through
// line of the input, or the rendering of the snapshot of a call - and its exit status.
type ppItem struct {
	K string `json:"k"`
	I int    `json:"i"`
	C int    `json:"c"`
}

type ppSpec struct {
	Determined bool     `json:"determined"`
	Status     int      `json:"status"`
	Items      []ppItem `json:"items"`
}

func strs(lead string) []string {
	out := []string{}
	for _, c := range lead {
		if c == '\t' {
			out = append(out, "t")
		} else {
			out = append(out, "s")
		}
	}
	return out
}

func splitLead(s string) (string, string) {
	i := 0
	for i < len(s) && (s[i] == ' ' || s[i] == '\t') {
		i++
	}
	return s[:i], s[i:]
}

func revLookup(m map[string]string, v string) string {
	for k, x := range m {
		if x == v {
			return k
		}
	}
	return "?" + v
}

// projCall maps a parsed call back to the alphabet's tokens.
func projCall(c *stack.Call, created bool) absCall {
	lead, sym := splitLead(c.Func.Complete)
	out := absCall{Lead: strs(lead), Flead: []string{}}
	if c.RemoteSrcPath == "<unavailable>" && c.Func.Complete == "" {
		out.Fn = "unavail"
		out.File = ""
		return out
	}
	if created {
		out.Fn = "?" + sym
		for k, vs := range createdSymbol {
			for _, v := range vs {
				if v == sym {
					out.Fn = k
				}
			}
		}
	} else {
		out.Fn = revLookup(fnSymbol, sym)
	}
	if c.RemoteSrcPath == "" {
		out.File = ""
	} else {
		fl, p := splitLead(c.RemoteSrcPath)
		out.Flead = strs(fl)
		out.File = revLookup(filePath, p)
	}
	return out
}

func projSnap(s *stack.Snapshot) []absG {
	out := []absG{}
	if s == nil {
		return out
	}
	for _, g := range s.Goroutines {
		a := absG{ID: g.ID, First: g.First, State: g.State, Race: g.RaceAddr != 0, Elided: g.Stack.Elided,
			Calls: []absCall{}, Created: []absCall{}}
		if a.Race {
			a.Tok = "r"
			if g.RaceWrite {
				a.Tok = "w"
			}
		}
		for i := range g.Stack.Calls {
			a.Calls = append(a.Calls, projCall(&g.Stack.Calls[i], false))
		}
		for i := range g.CreatedBy.Calls {
			// In a race report the creation stack is made of ordinary frames.
			a.Created = append(a.Created, projCall(&g.CreatedBy.Calls[i], !a.Race))
		}
		out = append(out, a)
	}
	return out
}

func normSnap(gs []absG) []absG {
	for i := range gs {
		if gs[i].Calls == nil {
			gs[i].Calls = []absCall{}
		}
		if gs[i].Created == nil {
			gs[i].Created = []absCall{}
		}
		for j := range gs[i].Calls {
			if gs[i].Calls[j].Lead == nil {
				gs[i].Calls[j].Lead = []string{}
			}
			if gs[i].Calls[j].Flead == nil {
				gs[i].Calls[j].Flead = []string{}
			}
		}
		for j := range gs[i].Created {
			if gs[i].Created[j].Lead == nil {
				gs[i].Created[j].Lead = []string{}
			}
			if gs[i].Created[j].Flead == nil {
				gs[i].Created[j].Flead = []string{}
			}
		}
	}
	if gs == nil {
		return []absG{}
	}
	return gs
}

func cat(lines [][]byte, idx []int) []byte {
	var b []byte
	for _, i := range idx {
		b = append(b, lines[i-1]...)
	}
	return b
}

func minus(a []int, b []int) []int {
	out := []int{}
	for _, x := range a {
		keep := true
		for _, y := range b {
			if x == y {
				keep = false
			}
		}
		if keep {
			out = append(out, x)
		}
	}
	return out
}

func seq(from, to int) []int {
	out := []int{}
	for i := from; i <= to; i++ {
		out = append(out, i)
	}
	return out
}

// expectation of one call, in bytes, under a choice of deviations.
type callExp struct {
	fwd, rest []byte
}

func expectCall(lines [][]byte, c *specCall, k1, k2 bool) callExp {
	fwd := c.Fwd
	tail := c.Tail
	if k1 {
		fwd = minus(fwd, c.K1)
		tail = minus(tail, c.K1)
	}
	if k2 && c.K2 != 0 {
		tail = minus(tail, []int{c.K2})
		fwd = append(append([]int{}, fwd...), c.K2)
	}
	e := callExp{fwd: cat(lines, fwd)}
	if c.Err == "eof" {
		e.rest = cat(lines, tail)
	} else {
		e.rest = cat(lines, seq(c.Stop, len(lines)))
	}
	return e
}

// errOK says whether the observed error class is what the specification
// predicts. "indent" is the error class after an indented dump is ended by a
// line without the indentation: the snapshot, what is consumed and the suffix
// are specified, the class of the error is not (DESIGN.md section 4, O1).
func errOK(spec string, obs string) bool {
	switch spec {
	case "":
		return obs == "none"
	case "eof":
		return obs == "eof"
	case "parse":
		return obs == "parse"
	case "indent":
		return obs == "parse" || obs == "none"
	}
	return false
}

type pipeStats struct {
	k1, k2 int
}

// checkPipeCase replays one stream under one delivery and reports findings.
// props selects which aspects are judged: C02 bytes, C03 crash/hang, C07
// delimitation and snapshots.
func checkPipeCase(res *Result, pc *pipeCase, alpha []absLine, rng *rand.Rand, full bool, tag string) {
	if res.saturated("C02", "C07", "C03", "C11") {
		return
	}
	crlf := rng.Intn(4) == 0
	lines := make([][]byte, len(pc.Inp))
	lens := make([]int, len(pc.Inp))
	var data []byte
	for i, k := range pc.Inp {
		eol := "lf"
		if i == len(pc.Inp)-1 {
			eol = pc.Eol
		}
		lines[i] = renderLine(&alpha[k-1], eol, rng, crlf)
		lens[i] = len(lines[i])
		data = append(data, lines[i]...)
	}
	opts := &stack.Opts{}
	for _, d := range deliveries(lens, rng, full) {
		src := newSource(data, d.plan, d.dflt, nil, d.withData)
		src.keepLog = true
		obs := runStream(src, opts, len(lines)+3)
		judgePipe(res, pc, pc.Calls, lines, data, obs, src, tag+"/"+d.name, alphaSnapCmp)
	}
	// a pass-through writer that fills up: the call during which a Write fails says so (an error other
	// than EOF), whatever else happens at that moment - a caller must not take the stream for conserved
	nw := 0
	for _, o := range runStream(newSource(data, nil, 0, nil, false), opts, len(lines)+3) {
		nw += len(o.Pieces) // the writes the code makes on this stream
	}
	if nw > 0 {
		failAts := []int{rng.Intn(nw), nw - 1} // somewhere, and at the very last write (which may coincide with the end of the stream)
		for _, withData := range []bool{false, true, false, true} {
			failAt := failAts[0]
			failAts = append(failAts[1:], failAts[0])
			if withData {
				failAt = nw - 1
			}
			src := newSource(data, nil, 0, nil, withData)
			reached, err, pan := runStreamFailingWriter(src, opts, len(lines)+3, failAt)
			if pan != "" {
				res.violation(Finding{Property: "C03", Aspect: "panic", What: tag + ": panic with a failing pass-through writer: " + firstLine(pan), Case: pc, Input: data})
				break
			}
			if reached && (err == nil || err == io.EOF) {
				res.violation(Finding{Property: "C02", Aspect: "write-error", What: fmt.Sprintf("%s: the pass-through writer failed at its write number %d (EOF delivered with the last data: %v), but the call returned %v: the loss goes unreported", tag, failAt+1, withData, err),
					Case: pc, Input: data, Expected: "an error other than EOF", Observed: fmt.Sprint(err)})
				break
			}
			if reached {
				res.count("writer_failures_reported", 1)
			}
		}
	}
}

// snapCmp compares the snapshot of call i with the specification's; it returns
// the property the comparison belongs to.
type snapCmp func(i int, c *specCall, o *callObs) (ok bool, prop string, want, got interface{})

func alphaSnapCmp(i int, c *specCall, o *callObs) (bool, string, interface{}, interface{}) {
	want := normSnap(c.Snap)
	got := projSnap(o.Snap)
	return reflect.DeepEqual(want, got), "C07", want, got
}

func judgePipe(res *Result, pc interface{}, calls []specCall, lines [][]byte, data []byte, obs []callObs, src *source, tag string, cmp snapCmp) {
	mk := func(prop, aspect, what string, exp, got interface{}) Finding {
		return Finding{Property: prop, Aspect: aspect, What: tag + ": " + what, Case: pc, Input: data, Expected: exp, Observed: got}
	}
	// C03: crash / hang
	for i := range obs {
		if obs[i].Panic != "" {
			res.violation(mk("C03", "panic", fmt.Sprintf("call %d panicked: %s", i+1, firstLine(obs[i].Panic)), nil, obs[i].Panic))
			return
		}
	}
	if src.hung {
		res.violation(mk("C03", "hang", "read budget exhausted", nil, src.reads))
		return
	}
	if len(obs) != len(calls) {
		res.violation(mk("C07", "calls", fmt.Sprintf("number of calls: spec %d, code %d", len(calls), len(obs)), len(calls), describe(obs)))
		// conservation can still be judged on the flattened stream below
	}
	// C02: flattened byte conservation, with the named deviations.
	var fInt, fReal, fObs []byte
	usedK1, usedK2 := false, false
	for i := range calls {
		c := &calls[i]
		fInt = append(fInt, expectCall(lines, c, false, false).fwd...)
		fReal = append(fReal, expectCall(lines, c, true, true).fwd...)
		if len(c.K1) != 0 {
			usedK1 = true
		}
		if c.K2 != 0 {
			usedK2 = true
		}
	}
	for i := range obs {
		fObs = append(fObs, obs[i].Fwd...)
	}
	last := len(calls) - 1
	tInt := expectCall(lines, &calls[last], false, false).rest
	tReal := expectCall(lines, &calls[last], true, true).rest
	var tObs []byte
	if len(obs) > 0 {
		tObs = obs[len(obs)-1].Rest
	}
	okBytes := false
	for _, v := range [][2]bool{{false, false}, {true, false}, {false, true}, {true, true}} {
		var f, t []byte
		for i := range calls {
			f = append(f, expectCall(lines, &calls[i], v[0], v[1]).fwd...)
		}
		t = expectCall(lines, &calls[last], v[0], v[1]).rest
		if bytes.Equal(f, fObs) && bytes.Equal(t, tObs) {
			okBytes = true
			if v[0] && usedK1 {
				res.known(Finding{Property: "C02", Known: "K1", Aspect: "bytes", What: tag + ": tentatively held race header lines discarded", Case: pc, Input: data,
					Expected: string(fInt), Observed: string(fObs)})
			}
			if v[1] && usedK2 {
				res.count("k2_fragment_forwarded", 1)
			}
			break
		}
	}
	_ = fReal
	_ = tReal
	if !okBytes {
		res.violation(mk("C02", "bytes", "forwarded bytes / remainder differ from every reading the specification allows",
			map[string]string{"fwd": string(fInt), "rest": string(tInt)}, map[string]string{"fwd": string(fObs), "rest": string(tObs)}))
	}
	// C11: at every Read the source sees, all complete pass-through lines delivered so
	// far have been written, and every call whose ending line is completely
	// delivered has returned.
	if len(src.log) > 0 {
		ends := make([]int, len(lines))
		off := 0
		for i, l := range lines {
			off += len(l)
			ends[i] = off
		}
		isFwd := make([]bool, len(lines)+1)
		for i := range calls {
			for _, x := range minus(calls[i].Fwd, calls[i].K1) {
				isFwd[x] = true
			}
		}
		for _, ev := range src.log {
			before := ev.Delivered - ev.N
			m := 0
			lower := 0
			for i := range lines {
				if ends[i] <= before && bytes.HasSuffix(lines[i], []byte("\n")) {
					m = i + 1
					if isFwd[i+1] {
						lower += len(lines[i])
					}
				}
			}
			wantRet := 0
			for i := range calls {
				if calls[i].Ret != 0 && calls[i].Ret <= m {
					wantRet++
				}
			}
			if ev.Written < lower {
				res.violation(mk("C11", "withheld", fmt.Sprintf("when the source was asked for more (%d bytes = %d complete lines delivered), only %d bytes had been written; %d bytes of complete pass-through lines were due", before, m, ev.Written, lower), lower, ev.Written))
				break
			}
			if ev.Call < wantRet {
				res.violation(mk("C11", "late-return", fmt.Sprintf("the line that ends call %d was completely delivered (%d complete lines), yet that call asked the source for more", ev.Call+1, m), wantRet, ev.Call))
				break
			}
		}
	}
	// C07: per call delimitation, snapshots, error class, remainder.
	n := len(obs)
	if len(calls) < n {
		n = len(calls)
	}
	for i := 0; i < n; i++ {
		c := &calls[i]
		o := &obs[i]
		errBad := !errOK(c.Err, o.ErrClass)
		if errBad {
			res.violation(mk("C07", "err", fmt.Sprintf("call %d: error class: spec %q, code %q (%v)", i+1, c.Err, o.ErrClass, o.Err), c.Err, o.ErrClass))
		}
		ok, prop, want, got := cmp(i, c, o)
		if errBad && prop != "C07" {
			// printed dumps / race reports: whether the text is an error is part of its fidelity
			res.violation(mk(prop, "err", fmt.Sprintf("call %d: error class: spec %q, code %q (%v)", i+1, c.Err, o.ErrClass, o.Err), c.Err, o.ErrClass))
		}
		if !ok {
			res.violation(mk(prop, "snapshot", fmt.Sprintf("call %d: snapshot differs", i+1), want, got))
			return
		}
		if errBad {
			return
		}
		okCall := false
		for _, v := range [][2]bool{{false, false}, {true, false}, {false, true}, {true, true}} {
			e := expectCall(lines, c, v[0], v[1])
			if bytes.Equal(e.fwd, o.Fwd) && bytes.Equal(e.rest, o.Rest) {
				okCall = true
				break
			}
		}
		if !okCall {
			e := expectCall(lines, c, false, false)
			res.violation(mk("C07", "delimit", fmt.Sprintf("call %d: forwarded / handed-back bytes differ", i+1),
				map[string]string{"fwd": string(e.fwd), "rest": string(e.rest)}, map[string]string{"fwd": string(o.Fwd), "rest": string(o.Rest)}))
			return
		}
	}
}

func firstLine(s string) string {
	if i := strings.IndexByte(s, '\n'); i >= 0 {
		return s[:i]
	}
	return s
}

func describe(obs []callObs) []map[string]interface{} {
	var out []map[string]interface{}
	for _, o := range obs {
		ng := 0
		if o.Snap != nil {
			ng = len(o.Snap.Goroutines)
		}
		out = append(out, map[string]interface{}{"fwd": string(o.Fwd), "rest": string(o.Rest), "err": o.ErrClass, "goroutines": ng})
	}
	return out
}

func init() {
	register("pipe", "replay MC_Pipe behaviours (streams over the line alphabet) through ScanSnapshot", func(args []string) error {
		c := newCommon("pipe")
		full := c.fs.Bool("full", false, "every delivery mode for every case")
		_ = c.fs.Parse(args)
		res := newResult("one case = one stream (sequence of alphabet lines, last line terminated or not) emitted by TLC with the calls the specification predicts; replayed under several delivery schedules; non-trivial = the stream makes the scanner leave the looking state (some line is consumed or held)")
		var alpha []absLine
		var cases []pipeCase
		err := scanTLC(*c.in, func(tag string, js []byte) error {
			switch tag {
			case "UNIV":
				var u struct {
					Alpha []absLine `json:"alpha"`
				}
				if err := json.Unmarshal(js, &u); err != nil {
					return err
				}
				alpha = u.Alpha
			case "CASE":
				var pc pipeCase
				if err := json.Unmarshal(js, &pc); err != nil {
					return err
				}
				pc.raw = string(js)
				cases = append(cases, pc)
			}
			return nil
		})
		if err != nil {
			return err
		}
		sortByKey(len(cases), func(i int) string { return cases[i].raw }, func(i, j int) { cases[i], cases[j] = cases[j], cases[i] })
		if len(alpha) == 0 || len(cases) == 0 {
			res.infra("no alphabet or no cases in %s", *c.in)
			return res.write(*c.out)
		}
		if *c.limit > 0 && len(cases) > *c.limit {
			rng := rand.New(rand.NewSource(*c.seed))
			rng.Shuffle(len(cases), func(i, j int) { cases[i], cases[j] = cases[j], cases[i] })
			cases = cases[:*c.limit]
		}
		var wg sync.WaitGroup
		nw := runtime.NumCPU()
		ch := make(chan int, 1024)
		for w := 0; w < nw; w++ {
			wg.Add(1)
			go func() {
				defer wg.Done()
				for i := range ch {
					pc := &cases[i]
					rng := rand.New(rand.NewSource(*c.seed*1000003 + int64(i)))
					checkPipeCase(res, pc, alpha, rng, *full, fmt.Sprintf("case %d", i))
					nontrivial := false
					for _, cl := range pc.Calls {
						if len(cl.Cons) != 0 || len(cl.K1) != 0 {
							nontrivial = true
						}
					}
					var sample interface{}
					if nontrivial && i%97 == 0 {
						sample = pc
					}
					res.eval(fmt.Sprint(pc.Inp, pc.Eol), nontrivial, sample)
				}
			}()
		}
		for i := range cases {
			ch <- i
		}
		close(ch)
		wg.Wait()
		return res.write(*c.out)
	})
}
