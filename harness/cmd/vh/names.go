package main

import (
	"encoding/json"
	"fmt"
	"math"
	"math/rand"
	"os"
	"reflect"
	"strings"

	"github.com/maruel/panicparse/v2/stack"
)

// C15: replay of MC_Names behaviours (spec/Names.tla) and recording of large
// random namings for Trace_Names.

type nslot struct {
	K string  `json:"k"`
	V int     `json:"v"`
	F []nslot `json:"f"`
	E int     `json:"-"` // how the aggregate is printed when the runtime cut it: 1 "{v, ...}", 2 "{{...}, v}"
}

type namesCase struct {
	raw   string
	D     [][][]nslot `json:"d"`
	Names []int       `json:"names"`
	El    bool        `json:"el"`
}

// markElided gives every aggregate of the case one of the two shapes the runtime prints when it
// cuts an aggregate short; neither adds or removes a value.
func markElided(d [][][]nslot) {
	for _, g := range d {
		for _, f := range g {
			for i := range f {
				if f[i].K == "a" {
					sum := 0
					for _, x := range f[i].F {
						sum += x.V
					}
					f[i].E = 1 + sum%2
				}
			}
		}
	}
}

// concrete value of a value code: 1..NP pointers ascending (1 is the lowest
// value classified as a pointer, np the highest), 1001.. non-pointers at the
// classification boundaries.
func nameValue(code, np int) uint64 {
	switch code {
	case 1001:
		return 524288
	case 1002:
		return math.MaxInt64
	case 1003:
		return 5
	}
	if code == 1 {
		return 524289
	}
	if code == np {
		return math.MaxInt64 - 1
	}
	return 0xc000000000 + uint64(code)*16
}

func printSlots(ss []nslot, np int) string {
	var parts []string
	for _, s := range ss {
		if s.K == "a" {
			switch s.E {
			case 1:
				parts = append(parts, "{"+printSlots(s.F, np)+", ...}")
			case 2:
				parts = append(parts, "{{...}, "+printSlots(s.F, np)+"}")
			default:
				parts = append(parts, "{"+printSlots(s.F, np)+"}")
			}
		} else {
			parts = append(parts, fmt.Sprintf("0x%x", nameValue(s.V, np)))
		}
	}
	return strings.Join(parts, ", ")
}

func printNamesDump(d [][][]nslot, np int) string {
	var sb strings.Builder
	for gi, g := range d {
		if gi > 0 {
			sb.WriteString("\n")
		}
		fmt.Fprintf(&sb, "goroutine %d [running]:\n", gi+1)
		for fi, f := range g {
			fmt.Fprintf(&sb, "main.f%d(%s)\n\t/a/b.go:%d +0x1\n", fi, printSlots(f, np), 10+fi)
		}
	}
	return sb.String()
}

func walkNames(s *stack.Snapshot) (names []int, bad string) {
	var walk func(a *stack.Args)
	walk = func(a *stack.Args) {
		for i := range a.Values {
			v := &a.Values[i]
			if v.IsAggregate {
				walk(&v.Fields)
				continue
			}
			n := 0
			if v.Name != "" {
				if _, err := fmt.Sscanf(v.Name, "#%d", &n); err != nil || n <= 0 {
					bad = "unexpected pseudo-name " + v.Name
				}
			}
			names = append(names, n)
		}
	}
	for _, g := range s.Goroutines {
		for i := range g.Stack.Calls {
			walk(&g.Stack.Calls[i].Args)
		}
	}
	return
}

func stripNames(s *stack.Snapshot) {
	var walk func(a *stack.Args)
	walk = func(a *stack.Args) {
		for i := range a.Values {
			if a.Values[i].IsAggregate {
				walk(&a.Values[i].Fields)
			} else {
				a.Values[i].Name = ""
			}
		}
	}
	for _, g := range s.Goroutines {
		for i := range g.Stack.Calls {
			walk(&g.Stack.Calls[i].Args)
		}
	}
}

func checkNames(res *Result, d [][][]nslot, want []int, np int, what string, cs interface{}) []int {
	dump := printNamesDump(d, np)
	on := parseDump(dump, &stack.Opts{NameArguments: true})
	off := parseDump(dump, &stack.Opts{})
	if on == nil || off == nil || len(on.Goroutines) != len(d) {
		res.violation(Finding{Property: "C01", Aspect: "parse", What: what + ": dump did not parse back", Case: cs, Input: []byte(dump)})
		return nil
	}
	got, bad := walkNames(on)
	if bad != "" {
		res.violation(Finding{Property: "C15", Aspect: "format", What: what + ": " + bad, Case: cs, Input: []byte(dump)})
	}
	if want != nil && !reflect.DeepEqual(got, want) {
		res.violation(Finding{Property: "C15", Aspect: "labelling", What: what + ": pseudo-names differ from the specification's labelling", Case: cs, Input: []byte(dump), Expected: want, Observed: got})
	}
	// the labelling is the snapshot's: aggregating (which generalises pointer arguments in the
	// buckets) leaves it as it was
	for _, lv := range []stack.Similarity{stack.AnyPointer, stack.AnyValue} {
		_ = on.Aggregate(lv)
		if again, _ := walkNames(on); !reflect.DeepEqual(again, got) {
			res.violation(Finding{Property: "C15", Aspect: "after-aggregate", What: fmt.Sprintf("%s: after aggregating at level %d the snapshot's pseudo-names are no longer the labelling", what, lv), Case: cs, Input: []byte(dump), Expected: got, Observed: again})
			break
		}
	}
	// a snapshot handed back together with a parse error is labelled like any other
	{
		faulted := dump + "\ngoroutine 99 [running]:\nmain.x()\nthis is not a file line\n"
		fs, _, ferr := stack.ScanSnapshot(strings.NewReader(faulted), discard{}, &stack.Opts{NameArguments: true})
		if fs != nil && ferr != nil && len(fs.Goroutines) >= len(d) {
			fgot, _ := walkNames(fs)
			ref := want
			if ref == nil {
				ref = got
			}
			if !reflect.DeepEqual(fgot, ref) {
				res.violation(Finding{Property: "C15", Aspect: "faulted", What: what + ": the snapshot returned together with a parse error (malformed goroutine after the dump) does not carry the labelling", Case: cs, Input: []byte(faulted), Expected: ref, Observed: fgot})
			}
			res.count("faulted_snapshots_checked", 1)
		}
	}
	// the same goroutines as the operations of a race report whose creation stack for goroutine 2
	// repeats argument values of its stack: the labelling is that of the operation stacks, and (as the
	// code stands, and as real reports - which print "()" - never show) creation frames carry no names
	if len(d) >= 2 {
		var rb strings.Builder
		rb.WriteString("==================\nWARNING: DATA RACE\n")
		for gi, g := range d {
			if gi == 0 {
				fmt.Fprintf(&rb, "Read at 0x00c000010000 by goroutine %d:\n", gi+1)
			} else {
				fmt.Fprintf(&rb, "Previous write at 0x00c000010000 by goroutine %d:\n", gi+1)
			}
			for fi, f := range g {
				fmt.Fprintf(&rb, "  main.f%d(%s)\n      /a/b.go:%d +0x1\n", fi, printSlots(f, np), 10+fi)
			}
			rb.WriteString("\n")
		}
		fmt.Fprintf(&rb, "Goroutine 2 (running) created at:\n  main.spawn(%s)\n      /a/c.go:5 +0x1\n==================\n", printSlots(d[1][0], np))
		rs, _, _ := stack.ScanSnapshot(strings.NewReader(rb.String()), discard{}, &stack.Opts{NameArguments: true})
		if rs != nil && len(rs.Goroutines) == len(d) {
			rgot, _ := walkNames(rs)
			if !reflect.DeepEqual(rgot, got) {
				res.violation(Finding{Property: "C15", Aspect: "race-labelling", What: what + ": as operations of a race report (with a creation stack that repeats argument values) the goroutines are labelled differently from the same goroutines in a dump", Case: cs, Input: []byte(rb.String()), Expected: got, Observed: rgot})
			}
			for _, g := range rs.Goroutines {
				for i := range g.CreatedBy.Calls {
					for _, v := range g.CreatedBy.Calls[i].Args.Values {
						if v.Name != "" {
							res.drift(Finding{Property: "C15", Aspect: "created-named", What: what + ": an argument of a creation frame of a race report carries a pseudo-name; the specification (and the code it was written from) leaves creation frames unnamed", Case: cs, Input: []byte(rb.String())})
						}
					}
				}
			}
			res.count("race_form_labellings_checked", 1)
		}
	}
	offNames, _ := walkNames(off)
	for _, n := range offNames {
		if n != 0 {
			res.violation(Finding{Property: "C15", Aspect: "off", What: what + ": an argument is named although naming is off", Case: cs, Input: []byte(dump)})
			break
		}
	}
	stripNames(on)
	if !reflect.DeepEqual(on.Goroutines, off.Goroutines) {
		res.violation(Finding{Property: "C15", Aspect: "other-fields", What: what + ": naming changed something else than the names", Case: cs, Input: []byte(dump)})
	}
	return got
}

func init() {
	register("names", "C15: replay MC_Names labellings; record namings of large random dumps", func(args []string) error {
		c := newCommon("names")
		traceOut := c.fs.String("trace", "", "write ndjson records of large random namings here")
		np := c.fs.Int("np", 4, "number of pointer codes of the exhaustive configuration")
		_ = c.fs.Parse(args)
		res := newResult("one case = a distribution of value codes (pointers at and around the classification boundaries, non-pointers) over goroutines, frames and nested aggregate fields, with the pseudo-name of every scalar slot as Names.tla's declarative labelling gives it; printed, parsed with naming on and off; non-trivial = at least one pointer occurs")
		var cases []namesCase
		err := scanTLC(*c.in, func(tag string, js []byte) error {
			if tag == "CASE" {
				var nc namesCase
				if err := json.Unmarshal(js, &nc); err != nil {
					return err
				}
				nc.raw = string(js)
				cases = append(cases, nc)
			}
			return nil
		})
		if err != nil {
			return err
		}
		if len(cases) == 0 {
			res.infra("no cases")
			return res.write(*c.out)
		}
		sortByKey(len(cases), func(i int) string { return cases[i].raw }, func(i, j int) { cases[i], cases[j] = cases[j], cases[i] })
		for i := range cases {
			nc := &cases[i]
			if nc.El {
				markElided(nc.D)
				res.count("cases_with_cut_aggregates", 1)
			}
			checkNames(res, nc.D, nc.Names, *np, fmt.Sprintf("names case %d", i), nc)
			nontrivial := false
			for _, n := range nc.Names {
				if n != 0 {
					nontrivial = true
				}
			}
			res.eval(nc.raw, nontrivial, sampleEvery(i, 4999, nc))
		}
		if *traceOut != "" {
			f, err := os.Create(*traceOut)
			if err != nil {
				return err
			}
			defer f.Close()
			enc := json.NewEncoder(f)
			rng := rand.New(rand.NewSource(*c.seed))
			n := 40
			if *c.tier == "thorough" {
				n = 300
			}
			const bigNP = 64
			for t := 0; t < n; t++ {
				// many distinct pointers, some recurring in the first goroutine, some only elsewhere,
				// interleaved in address order
				ng := 2 + rng.Intn(4)
				var d [][][]nslot
				nptr := 8 + rng.Intn(50)
				codes := rng.Perm(bigNP)[:nptr]
				for g := 0; g < ng; g++ {
					var frames [][]nslot
					for f := 0; f < 1+rng.Intn(2); f++ {
						var slots []nslot
						for k := 0; k < 4+rng.Intn(20); k++ {
							v := 1 + codes[rng.Intn(len(codes))]
							if g == 0 && rng.Intn(2) == 0 {
								v = 1 + codes[rng.Intn(len(codes)/2+1)]
							}
							if rng.Intn(7) == 0 {
								v = 1001 + rng.Intn(3)
							}
							s := nslot{K: "v", V: v, F: []nslot{}}
							if rng.Intn(6) == 0 {
								s = nslot{K: "a", F: []nslot{s}}
							}
							slots = append(slots, s)
						}
						frames = append(frames, slots)
					}
					d = append(d, frames)
				}
				got := checkNames(res, d, nil, bigNP, fmt.Sprintf("random naming %d", t), nil)
				if got != nil {
					_ = enc.Encode(map[string]interface{}{"d": d, "names": got})
					res.count("names_trace_records", 1)
				}
			}
		}
		return res.write(*c.out)
	})
}
