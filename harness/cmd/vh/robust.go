package main

import (
	"bytes"
	"encoding/json"
	"fmt"
	"math/rand"
	"os"
	"path/filepath"
	"runtime"
	"runtime/debug"
	"strings"
	"sync"

	"github.com/maruel/panicparse/v2/stack"
)

// C03: inputs beyond the streams TLC enumerates. Seeds are the printed dumps
// and race reports of MC_Print (every line kind of both grammars); they are
// mutated at line level (delete, duplicate, swap, splice, truncate) and at
// lexical level (numbers, escapes, brackets, overlong tokens), and mixed with
// random bytes. Every input is scanned under the resume protocol with a read
// budget, under recover(), with every post-pass off and with every post-pass
// on against a synthetic local source tree; every snapshot is aggregated at
// the four levels and rendered as HTML.

var corruptNumbers = []string{"0", "1", "18446744073709551615", "18446744073709551616", "999999999999999999", "9223372036854775807", "9223372036854775808",
	"9999999999999999999", "12345678901234567890", "0x", "0xg", "-1", "1e3", "07", "0x8000000000000000", "0xffffffffffffffffff", ""}

var corruptSymbols = []string{"a.%2e%2e", "%2e%2e%2e", "a/b", "a/b.", ".", "..", "a.", ".a", "%", "%2", "%zz", "a%2", "a/%2e.b", "a.b c", "a. in goroutine 1",
	"a/b%2fc.d", "\xff\xfe.x", "a.\x00", "main.(*T", "main.)", "x/y/z", "%41%42.%43", "a.b in goroutine", "a.b in goroutine 99999999999999999999"}

var corruptArgs = []string{"{", "}", "{{{{{{{0x1}}}}}}}", "{{{{{{0x1}}}}}}", "{{{{{0x1}}}}}", "}{", "{}", "{, }", ", ", "0x1, ", ", 0x1", "...", "..., ...", "_", "_?", "?", "0x1??",
	"{...}", "{_}", "{0x1, ...}, ...", "0x1 0x2", "0x1,0x2", "{0x1}, {0x2, {0x3, {0x4, {0x5, {0x6}}}}}"}

// argument lists that reFunc accepts and parseArgs rejects
var corruptArgsBad = []string{"{", "}", "{{{{{{{0x1}}}}}}}", "{{{{{{0x1}}}}}}", "}{", "zz", "0x1ffffffffffffffff", "0x1, {", "0x1}, 0x2", "0x1 0x2", "-1"}

func mutateLines(lines [][]byte, rng *rand.Rand) [][]byte {
	out := make([][]byte, len(lines))
	copy(out, lines)
	n := 1 + rng.Intn(3)
	for k := 0; k < n && len(out) > 0; k++ {
		i := rng.Intn(len(out))
		switch rng.Intn(8) {
		case 0: // delete
			out = append(out[:i:i], out[i+1:]...)
		case 1: // duplicate
			out = append(out[:i+1:i+1], out[i:]...)
		case 2: // swap with next
			if i+1 < len(out) {
				out[i], out[i+1] = out[i+1], out[i]
			}
		case 3: // splice a copy of a random run somewhere else
			j := rng.Intn(len(out))
			m := 1 + rng.Intn(4)
			if j+m > len(out) {
				m = len(out) - j
			}
			run := append([][]byte{}, out[j:j+m]...)
			out = append(out[:i:i], append(run, out[i:]...)...)
		case 4: // truncate the line
			l := out[i]
			if len(l) > 1 {
				out[i] = append(append([]byte{}, l[:rng.Intn(len(l))]...), '\n')
			}
		case 5: // replace every number on the line by a corrupt one
			out[i] = replaceNumbers(out[i], rng)
		case 6: // replace the line by a corrupt function / created-by / file line
			switch rng.Intn(4) {
			case 0:
				out[i] = []byte(corruptSymbols[rng.Intn(len(corruptSymbols))] + "(" + corruptArgs[rng.Intn(len(corruptArgs))] + ")\n")
			case 1:
				out[i] = []byte("created by " + corruptSymbols[rng.Intn(len(corruptSymbols))] + "\n")
			case 2:
				out[i] = []byte("\t/a/b.go:" + corruptNumbers[rng.Intn(len(corruptNumbers))] + " +0x" + corruptNumbers[rng.Intn(len(corruptNumbers))] + "\n")
			default:
				out[i] = []byte("goroutine " + corruptNumbers[rng.Intn(len(corruptNumbers))] + " [" + []string{"", "]", "running, " + corruptNumbers[rng.Intn(len(corruptNumbers))] + " minutes", "a, b, c, locked to thread"}[rng.Intn(4)] + "]:\n")
			}
		default: // change indentation / line ending
			l := bytes.TrimRight(out[i], "\r\n")
			out[i] = append(append([]byte([]string{"", " ", "\t", "  \t", "    "}[rng.Intn(5)]), bytes.TrimLeft(l, " \t")...), []string{"\n", "\r\n", "\r", ""}[rng.Intn(4)]...)
		}
	}
	return out
}

func replaceNumbers(l []byte, rng *rand.Rand) []byte {
	var out []byte
	i := 0
	for i < len(l) {
		if l[i] >= '0' && l[i] <= '9' {
			j := i
			for j < len(l) && (l[j] >= '0' && l[j] <= '9' || l[j] == 'x' || l[j] >= 'a' && l[j] <= 'f') {
				j++
			}
			out = append(out, corruptNumbers[rng.Intn(len(corruptNumbers))]...)
			i = j
			continue
		}
		out = append(out, l[i])
		i++
	}
	return out
}

// localTree creates a synthetic local source tree and returns options that
// make every post-pass run against it, plus dumps that refer to its files.
func localTree(root string) (*stack.Opts, []string, error) {
	mod := filepath.Join(root, "mod")
	gp := filepath.Join(root, "gopath")
	files := map[string]string{
		filepath.Join(mod, "go.mod"):    "module example.com/m\n\ngo 1.20\n",
		filepath.Join(mod, "main.go"):   "package main\n\nfunc f(a int, s string, b []byte, e error, m map[string]int) {\n\tg(a)\n}\n\nfunc g(a int) {\n\tpanic(a)\n}\n\nfunc nobody() int64\n\nfunc (t *T) M(x uint8, y float64) {\n\tg(1)\n}\n\ntype T struct{}\n\nfunc main() {\n\tf(1, \"\", nil, nil, nil)\n}\n",
		filepath.Join(mod, "broken.go"): "package main\n\nfunc broken( {\n",
		// accepted by go/parser, rejected by the type checker: receiver lists of length 2 and 0, a one-line function, no final newline
		filepath.Join(mod, "odd.go"):                                                    "package main\n\nfunc (t *T, u *T) f(a int) {\n\tg(a)\n}\n\nfunc () g(a int) {\n\tpanic(a)\n}\n\nfunc (T) M(x uint8, y float64) { g(1) }\n\n\n\n\n\n\n\n\nfunc nobody(a int) { panic(a) }",
		filepath.Join(gp, "src", "example.com", "p", "file.go"):                         "package p\n\nfunc Do(x int) {\n\tDo(x)\n}\n",
		filepath.Join(gp, "pkg", "mod", "github.com", "foo", "bar@v1.2.3", "x", "y.go"): "package x\n\nfunc Y(a, b int) {\n}\n",
	}
	for p, c := range files {
		if err := os.MkdirAll(filepath.Dir(p), 0o755); err != nil {
			return nil, nil, err
		}
		if err := os.WriteFile(p, []byte(c), 0o644); err != nil {
			return nil, nil, err
		}
	}
	opts := &stack.Opts{LocalGOROOT: runtime.GOROOT(), LocalGOPATHs: []string{filepath.ToSlash(gp)}, NameArguments: true, GuessPaths: true, AnalyzeSources: true}
	var seeds []string
	m := filepath.ToSlash(mod)
	for _, ln := range []string{"1", "3", "4", "8", "11", "14", "19", "20", "21", "400", "999999999999999999", "9223372036854775807", "9223372036854775808", "9999999999999999999", "18446744073709551615", "99999999999999999999"} {
		for _, fn := range []string{"main.f(0x1, 0xc000010000, 0x2, 0xc000020000, 0x3, 0x4, 0x0, 0x0, 0xc000030000)", "main.g(0x7)", "main.(*T).M(0xc000040000, 0x5, 0x3ff0000000000000)", "main.nobody()", "main.nobody(0x1)", "main.missing(0x1, {0x2, 0x3})", "main.f(...)", "main.f(0x1, _, ...)"} {
			for _, file := range []string{"main.go", "broken.go", "gone.go", "odd.go"} {
				seeds = append(seeds, fmt.Sprintf("goroutine 1 [running]:\n%s\n\t%s/%s:%s +0x1d\nmain.main()\n\t%s/main.go:19 +0x2a\n", fn, m, file, ln, m))
			}
		}
	}
	// a path whose suffix exists under the local Go root / GOPATH source tree, but without "src" in front of it
	seeds = append(seeds, "goroutine 1 [running]:\nfmt.Println(0x1)\n\t/x/fmt/print.go:10 +0x1\n", "goroutine 1 [running]:\nexample.com/p.Do(0x1)\n\t/y/example.com/p/file.go:4 +0x1\n",
		"goroutine 1 [running]:\nfmt.Println(0x1)\n\t/fmt/print.go:10 +0x1\nexample.com/p.Do(0x1)\n\t/example.com/p/file.go:4 +0x1\n")
	// unbalanced brackets, several at once
	for _, fn := range []string{"main.g(0x1}})", "main.g({{0x1, 0x2}}}}, 0x3)", "main.g({{{{{{0x1}}}}}})", "main.g(}{)", "main.g({0x1, {0x2}}, }, {)"} {
		seeds = append(seeds, fmt.Sprintf("goroutine 1 [running]:\n%s\n\t%s/main.go:8 +0x1d\n", fn, m))
	}
	// paths that extend a detected remote root by a few bytes only
	seeds = append(seeds, "goroutine 1 [running]:\nexample.com/p.Do(0x1)\n\t/remote/gopath/src/example.com/p/file.go:4 +0x1\nfmt.Println(0x1)\n\t/remote/go/src/fmt/print.go:10 +0x1\nmain.a(0x1)\n\t/remote/gopath/try.go:1 +0x1\nmain.b(0x1)\n\t/remote/gopath2/m.go:1 +0x1\nmain.c(0x1)\n\t/remote/go/z.s:1 +0x1\nmain.d(0x1)\n\t/remote/gox.c:1 +0x1\nmain.e(0x1)\n\t/remote/go/src:1 +0x1\nmain.f(0x1)\n\t/remote/gopath/pkg/mo:1 +0x1\n")
	seeds = append(seeds, fmt.Sprintf("goroutine 1 [running]:\nexample.com/p.Do(0x1)\n\t/remote/gopath/src/example.com/p/file.go:4 +0x1\ngithub.com/foo/bar/x.Y(0x1, 0x2)\n\t/remote/gopath/pkg/mod/github.com/foo/bar@v1.2.3/x/y.go:3 +0x1\nfmt.Println(0x1)\n\t/remote/go/src/fmt/print.go:10 +0x1\nfmt.Println(0x1)\n\t/x/fmt/print.go:10 +0x1\n"))
	return opts, seeds, nil
}

func exercise(res *Result, data []byte, opts *stack.Opts, tag string) {
	src := newSource(data, nil, 0, nil, false)
	obs := runStream(src, opts, 8+bytes.Count(data, []byte("\n")))
	mk := func(aspect, what string) Finding {
		return Finding{Property: "C03", Aspect: aspect, What: tag + ": " + what, Input: data}
	}
	for i, o := range obs {
		if o.Panic != "" {
			res.violation(mk("panic", fmt.Sprintf("ScanSnapshot call %d panicked: %s", i+1, firstLine(o.Panic))))
			return
		}
	}
	if src.hung {
		res.violation(mk("hang", "read budget exhausted"))
		return
	}
	if n := len(obs); n > 0 && obs[n-1].ErrClass != "eof" && obs[n-1].ErrClass != "reader" {
		res.violation(mk("no-termination", fmt.Sprintf("repeated scanning did not reach the end of the stream within %d calls", n)))
		return
	}
	for _, o := range obs {
		if o.Snap == nil {
			continue
		}
		func() {
			defer func() {
				if r := recover(); r != nil {
					res.violation(mk("panic-after", fmt.Sprintf("aggregating / rendering a returned snapshot panicked: %v\n%s", r, firstLine(string(debug.Stack())))))
				}
			}()
			for _, lv := range []stack.Similarity{stack.ExactFlags, stack.ExactLines, stack.AnyPointer, stack.AnyValue} {
				a := o.Snap.Aggregate(lv)
				var b bytes.Buffer
				if err := a.ToHTML(&b, ""); err != nil {
					res.violation(mk("html", fmt.Sprintf("Aggregated.ToHTML failed: %v", err)))
				}
				for _, bk := range a.Buckets {
					_ = bk.SleepString()
					for i := range bk.Stack.Calls {
						_ = bk.Stack.Calls[i].Args.String()
					}
				}
			}
			var b bytes.Buffer
			if err := o.Snap.ToHTML(&b, ""); err != nil {
				res.violation(mk("html", fmt.Sprintf("Snapshot.ToHTML failed: %v", err)))
			}
			if len(o.Snap.Goroutines) > 0 {
				_ = o.Snap.IsRace()
			}
		}()
	}
}

func init() {
	register("robust", "C03: mutated dumps, lexical corruption and noise under recover(), all post-passes off and on", func(args []string) error {
		c := newCommon("robust")
		n := c.fs.Int("n", 20000, "number of mutated inputs")
		_ = c.fs.Parse(args)
		res := newResult("one case = one byte string: a printed dump / race report of MC_Print mutated at line level (delete, duplicate, swap, splice, truncate, re-indent) and lexical level (corrupt numbers, escapes, brackets), seeds referring to a synthetic local source tree with corrupt line numbers and mismatching sources, and random bytes; scanned under the resume protocol with a read budget, every snapshot aggregated at 4 levels and rendered twice; under two option sets; non-trivial = distinct input")
		var cases []printCase
		err := scanTLC(*c.in, func(tag string, js []byte) error {
			if tag == "CASE" {
				var pc printCase
				if err := json.Unmarshal(js, &pc); err != nil {
					return err
				}
				pc.raw = string(js)
				cases = append(cases, pc)
			}
			return nil
		})
		if err != nil {
			return err
		}
		if len(cases) == 0 {
			res.infra("no seeds")
			return res.write(*c.out)
		}
		sortByKey(len(cases), func(i int) string { return cases[i].raw }, func(i, j int) { cases[i], cases[j] = cases[j], cases[i] })
		root, err := os.MkdirTemp("", "vh-robust-")
		if err != nil {
			return err
		}
		defer os.RemoveAll(root)
		full, localSeeds, err := localTree(root)
		if err != nil {
			return err
		}
		off := &stack.Opts{}
		var wg sync.WaitGroup
		ch := make(chan int, 256)
		for w := 0; w < runtime.NumCPU(); w++ {
			wg.Add(1)
			go func() {
				defer wg.Done()
				for i := range ch {
					rng := rand.New(rand.NewSource(*c.seed*982451653 + int64(i)))
					var data []byte
					tag := ""
					switch {
					case i < len(localSeeds):
						data = []byte(localSeeds[i])
						tag = fmt.Sprintf("local seed %d", i)
					case i%17 == 0:
						data = make([]byte, 1+rng.Intn(400))
						rng.Read(data)
						for k := range data {
							if rng.Intn(9) == 0 {
								data[k] = '\n'
							}
						}
						tag = fmt.Sprintf("noise %d", i)
					case i%5 == 0:
						s := localSeeds[rng.Intn(len(localSeeds))]
						var ls [][]byte
						for _, l := range strings.SplitAfter(s, "\n") {
							if l != "" {
								ls = append(ls, []byte(l))
							}
						}
						data = bytes.Join(mutateLines(ls, rng), nil)
						tag = fmt.Sprintf("mutated local seed %d", i)
					default:
						pc := &cases[rng.Intn(len(cases))]
						p := &printer{lx: newLexicon(rng, nil), created: map[string]string{}}
						lines := make([][]byte, len(pc.Lines))
						for k := range pc.Lines {
							lines[k] = p.render(k, &pc.Lines[k], rng.Intn(5) == 0)
						}
						if rng.Intn(4) != 0 {
							lines = mutateLines(lines, rng)
						}
						data = bytes.Join(lines, nil)
						tag = fmt.Sprintf("mutated dump %d", i)
					}
					exercise(res, data, off, tag+" (post-passes off)")
					exercise(res, data, full, tag+" (all post-passes, local tree)")
					res.eval(string(data), true, sampleEvery(i, 3331, map[string]interface{}{"tag": tag, "input": string(data)}))
				}
			}()
		}
		total := *n
		if total < len(localSeeds) {
			total = len(localSeeds)
		}
		for i := 0; i < total; i++ {
			ch <- i
		}
		close(ch)
		wg.Wait()
		return res.write(*c.out)
	})
}
