package main

// Lexical tables of the concretiser: every abstract token of a printed dump or
// race report is given concrete text drawn (seeded) from models of what the
// producers print, together with the values the parser must report for it.
// The expected values are known by construction (the text is generated FROM
// them), not by running a second parser.

import (
	"fmt"
	"math/rand"
	"os"
	"path/filepath"
	"regexp"
	"runtime"
	"strings"
	"unicode/utf8"
)

// pathToPrefix re-implements cmd/internal/objabi.PathToPrefix: the linker
// escapes control characters, space, '%', '"', bytes >= 0x7f and the dots of
// the last path element of a package path.
func pathToPrefix(s string) string {
	slash := strings.LastIndex(s, "/")
	var sb strings.Builder
	for i := 0; i < len(s); i++ {
		c := s[i]
		if c <= ' ' || (c == '.' && i > slash) || c == '%' || c == '"' || c >= 0x7f {
			fmt.Fprintf(&sb, "%%%02x", c)
		} else {
			sb.WriteByte(c)
		}
	}
	return sb.String()
}

type symShape struct {
	pkg  string // import path ("" = no package: C code)
	name string
	row  string
}

var symShapes = []symShape{
	{"main", "main", "main.main"},
	{"main", "foo", "main func"},
	{"main", "(*T).Method", "main ptr method"},
	{"main", "T.value", "main value method"},
	{"main", "main.func1", "closure"},
	{"main", "(*T).run.func1.1", "nested closure"},
	{"main", "glob..func1", "package-level closure"},
	{"main", "Map[...]", "generic func"},
	{"main", "(*List[...]).Push", "generic method"},
	{"fmt", "Println", "stdlib exported"},
	{"runtime", "gopark", "stdlib private"},
	{"net/http", "(*conn).serve", "stdlib nested pkg"},
	{"github.com/foo/bar", "Do", "third party"},
	{"github.com/foo/bar/v2", "(*Client).Get", "module major version"},
	{"gopkg.in/yaml.v2", "(*Decoder).Decode", "dotted last element"},
	{"example.com/a.b/c.d", "F", "dots in two elements"},
	{"example.com/ùtf8/pkg", "Run", "non-ASCII path element"},
	{"example.com/p/ünï", "Gö", "non-ASCII last element and name"},
	{"example.com/sp ace/q", "X", "space in path"},
	{"example.com/100%/p", "Y", "percent in path"},
	{"github.com/foo/c++lib", "Do", "plus in path"},
	{"github.com/x/y/vendor/github.com/z/w", "Call", "vendored"},
	{"", "_cgo_sys_thread_start", "C symbol without dot"},
	{"", "x_cgo_callers", "C symbol without dot 2"},
	{"runtime/internal/atomic", "Xchg", "asm symbol"},
	{"main", "init.0", "init func"},
	{"main", "(*T).Method-fm", "method value"},
	{"command-line-arguments", "main", "go run package"},
	{"example.com/tool/main", "Run", "library package whose last element is main"},
	{"example.com/main/sub", "helper", "main as an inner path element"},
	{"mainframe", "Boot", "package name that starts with main"},
	{"main", "[...]", "bare generic marker as a name"},
	{"example.com/lib", "Set.[...]", "name ending in a generic marker"},
	{"net/http", "(*Server).Serve.func1", "closure in an exported method of a library"},
	{"example.com/lib", "Walk.func2", "closure in an exported function of a library"},
	{"example.com/lib", "Walk.func2.1", "nested closure in a library"},
	{"example.com/lib", "(*pool[...]).run", "unexported method of a generic type in a library"},
	{"example.com/lib", "init.0.func1", "closure in a library init"},
	{"example.com/lib", "(*T).Do-fm", "method value in a library"},
}

type fnItem struct {
	text       string // symbol as printed (without the argument list)
	complete   string
	importPath string
	name       string
	dirName    string
	isMain     bool
	exported   int // 1 yes, 0 no, -1 not checked
	row        string
}

func mkFn(sh symShape, uniq string) fnItem {
	// uniq makes the symbol distinct within one case.
	name := sh.name + uniq
	if strings.HasSuffix(sh.name, "[...]") && !strings.HasSuffix(sh.name, "Map[...]") {
		// the generic marker stays at the very end (and a bare marker stays bare)
		base := strings.TrimSuffix(strings.TrimSuffix(sh.name, "[...]"), ".")
		name = "[...]"
		if base != "" {
			name = base + strings.ReplaceAll(uniq, "ₓ", "_") + ".[...]"
		}
	}
	it := fnItem{row: sh.row, name: name}
	if sh.pkg == "" {
		it.text = name
		it.complete = name
		it.importPath = ""
		it.dirName = ""
		it.exported = -1
		return it
	}
	it.text = pathToPrefix(sh.pkg) + "." + name
	it.complete = sh.pkg + "." + name
	it.importPath = sh.pkg
	it.dirName = sh.pkg
	if i := strings.LastIndexByte(sh.pkg, '/'); i >= 0 {
		it.dirName = sh.pkg[i+1:]
	}
	it.isMain = sh.pkg == "main"
	it.exported = -1
	if !it.isMain {
		parts := strings.Split(name, ".")
		last := parts[len(parts)-1]
		if last != "" {
			c := last[0]
			if c >= 'A' && c <= 'Z' {
				it.exported = 1
			} else if c >= 'a' && c <= 'z' {
				it.exported = 0
			}
		}
	}
	return it
}

// argument trees, as runtime.printArgs prints them
type argNode struct {
	agg        bool
	value      uint64
	tooLarge   bool // "_"
	inaccurate bool // "?" suffix
	fields     []argNode
	elided     bool // "..." at the end of this aggregate
}

var boundaryValues = []uint64{0, 1, 9, 10, 524287, 524288, 524289, 0xc000012345, 1<<63 - 2, 1<<63 - 1, 1 << 63, 1<<64 - 1}

func genArgs(rng *rand.Rand, depth int, budget *int) ([]argNode, bool) {
	n := rng.Intn(4)
	if depth == 0 && rng.Intn(6) == 0 {
		n = 0
	}
	var out []argNode
	for i := 0; i < n && *budget > 0; i++ {
		*budget--
		switch r := rng.Intn(10); {
		case r == 0 && depth < 5:
			f, el := genArgs(rng, depth+1, budget)
			out = append(out, argNode{agg: true, fields: f, elided: el})
		case r == 1:
			out = append(out, argNode{tooLarge: true})
		default:
			a := argNode{value: boundaryValues[rng.Intn(len(boundaryValues))]}
			if rng.Intn(3) == 0 {
				a.value = rng.Uint64() >> uint(rng.Intn(64))
			}
			a.inaccurate = rng.Intn(5) == 0
			out = append(out, a)
		}
	}
	return out, rng.Intn(5) == 0
}

func printArgs(a []argNode, elided bool) string {
	var parts []string
	for _, x := range a {
		switch {
		case x.agg:
			parts = append(parts, "{"+printArgs(x.fields, x.elided)+"}")
		case x.tooLarge:
			parts = append(parts, "_")
		default:
			s := fmt.Sprintf("0x%x", x.value)
			if x.inaccurate {
				s += "?"
			}
			parts = append(parts, s)
		}
	}
	if elided {
		parts = append(parts, "...")
	}
	return strings.Join(parts, ", ")
}

type fileShape struct {
	path string
	row  string
}

var fileShapes = []fileShape{
	{"/home/user/go/src/example.com/p/file.go", "unix"},
	{"/usr/local/go/src/runtime/proc.go", "goroot"},
	{"/usr/local/go/src/runtime/asm_amd64.s", "assembly"},
	{"/tmp/cgo/x.c", "c file"},
	{"C:/Users/dev/go/src/p/file.go", "windows drive"},
	{"/path with space/p q/file name.go", "spaces"},
	{"/home/üser/src/ünï.go", "non-ASCII"},
	{"??", "unknown cgo"},
	{"<autogenerated>", "autogenerated"},
	{"_cgo_gotypes.go", "no directory"},
	{"/root.go", "root file"},
	{"/a/b.go", "short"},
	{"/go/pkg/mod/github.com/foo/bar@v1.2.3/x/y.go", "module cache"},
	{"/work/_test/_testmain.go", "testmain"},
	{"/a/b.c.go:1.go", "colon and dots in name"},
	{"/home/u/my%20project/proj%41/100%25.go", "literal percent sequences (printed verbatim by the runtime)"},
}

type fileItem struct {
	text    string
	path    string
	line    int
	srcName string
	dirSrc  string
	row     string
}

func mkFile(sh fileShape, rng *rand.Rand) fileItem {
	lines := []int{0, 1, 42, 65535, 999999999999999999}
	it := fileItem{path: sh.path, line: lines[rng.Intn(len(lines))], row: sh.row}
	if rng.Intn(2) == 0 {
		it.line = 1 + rng.Intn(5000)
	}
	suffix := []string{"", " +0x1f", " +0x0", " +0x1f fp=0xc00003e7a8 sp=0xc00003e788 pc=0x43a9c5", " fp=0xc00003e7a8 sp=0xc00003e788", " +0xabc fp=0x7ffc5a3e3f60 sp=0x7ffc5a3e3f58"}
	it.text = fmt.Sprintf("%s:%d%s", sh.path, it.line, suffix[rng.Intn(len(suffix))])
	if i := strings.LastIndexByte(sh.path, '/'); i != -1 {
		it.srcName = sh.path[i+1:]
		if j := strings.LastIndexByte(sh.path[:i], '/'); j != -1 {
			it.dirSrc = sh.path[j+1:]
		}
	} else {
		it.srcName = sh.path
	}
	return it
}

var fallbackStates = []string{"running", "runnable", "syscall", "waiting", "idle", "dead", "copystack", "preempted",
	"chan receive", "chan send", "select", "select (no cases)", "chan receive (nil chan)", "chan send (nil chan)",
	"IO wait", "semacquire", "sleep", "sync.Cond.Wait", "sync.Mutex.Lock", "sync.RWMutex.RLock", "sync.RWMutex.Lock",
	"GC assist marking", "GC sweep wait", "GC scavenge wait", "finalizer wait", "force gc (idle)", "GC worker (idle)",
	"garbage collection", "panicwait", "trace reader (blocked)", "wait for GC cycle", "debug call", "coroutine"}

var stateStrings []string

// loadStates reads every wait reason and status string from the installed
// runtime sources, so that "every wait-reason string" follows the toolchain.
func loadStates() []string {
	if stateStrings != nil {
		return stateStrings
	}
	seen := map[string]bool{}
	var out []string
	add := func(s string) {
		if s != "" && !seen[s] {
			seen[s] = true
			out = append(out, s)
		}
	}
	re := regexp.MustCompile(`(?m)^\s*(?:waitReason\w+|_G\w+):\s+"([^"]*)",`)
	for _, f := range []string{"runtime2.go", "traceback.go"} {
		b, err := os.ReadFile(filepath.Join(runtime.GOROOT(), "src", "runtime", f))
		if err != nil {
			continue
		}
		for _, m := range re.FindAllSubmatch(b, -1) {
			add(string(m[1]))
		}
	}
	for _, s := range fallbackStates {
		add(s)
	}
	base := append([]string{}, out...)
	for _, s := range base {
		if len(out) < 200 && (s == "running" || s == "runnable" || s == "syscall" || s == "waiting") {
			add(s + " (scan)")
		}
	}
	stateStrings = out
	return out
}

type hdrItem struct {
	text   string // the whole header line body
	id     int
	state  string
	sleep  int
	locked bool
	row    string
}

func mkHdr(id int, rng *rand.Rand) hdrItem {
	states := loadStates()
	it := hdrItem{id: id, state: states[rng.Intn(len(states))]}
	it.row = it.state
	inner := it.state
	switch rng.Intn(5) {
	case 0:
		it.sleep = 1 + rng.Intn(100000)
		inner += fmt.Sprintf(", %d minutes", it.sleep)
	case 1:
		it.locked = true
		inner += ", locked to thread"
	case 2:
		it.sleep = 1 + rng.Intn(500)
		it.locked = true
		inner += fmt.Sprintf(", %d minutes, locked to thread", it.sleep)
	}
	ann := ""
	switch rng.Intn(4) {
	case 0:
		ann = fmt.Sprintf(" gp=0xc000%06x m=%d mp=0xc0000%05x", rng.Intn(1<<24), rng.Intn(64), rng.Intn(1<<20))
	case 1:
		ann = fmt.Sprintf(" gp=0xc000%06x m=nil", rng.Intn(1<<24))
	}
	it.text = fmt.Sprintf("goroutine %d%s [%s]:", id, ann, inner)
	return it
}

var concreteIDs = []int{1, 2, 3, 7, 17, 18, 34, 100, 4711, 65536, 1 << 31, 1<<31 + 1, 99999999999, 999999999999999999, 123456789012345678}

// lexicon assigns concrete items to the abstract tokens of one case.
type lexicon struct {
	rng   *rand.Rand
	fn    map[string]*fnItem
	args  map[string]*argsItem
	file  map[string]*fileItem
	hdr   map[int]*hdrItem
	ids   map[int]int
	addrs map[int]uint64
	used  map[int]bool
	n     int
	res   *Result

	firstAddr     uint64
	sharedCreator int // 0 not drawn yet, 1 shared, 2-3 not
}

type argsItem struct {
	text   string
	nodes  []argNode
	elided bool
}

func newLexicon(rng *rand.Rand, res *Result) *lexicon {
	return &lexicon{rng: rng, fn: map[string]*fnItem{}, args: map[string]*argsItem{}, file: map[string]*fileItem{},
		hdr: map[int]*hdrItem{}, ids: map[int]int{}, addrs: map[int]uint64{}, used: map[int]bool{}, res: res}
}

func (lx *lexicon) id(abs int) int {
	if v, ok := lx.ids[abs]; ok {
		return v
	}
	for {
		v := concreteIDs[lx.rng.Intn(len(concreteIDs))]
		if lx.rng.Intn(3) == 0 {
			v = 1 + lx.rng.Intn(1<<20)
		}
		if !lx.used[v] {
			lx.used[v] = true
			lx.ids[abs] = v
			return v
		}
	}
}

func (lx *lexicon) fnOf(tok string) *fnItem {
	// in a third of the cases every goroutine of the dump was started by the same function (from
	// different lines): the creation tokens C1, C2, ... share one symbol
	if lx.sharedCreator == 0 {
		lx.sharedCreator = 1 + lx.rng.Intn(3)
	}
	if lx.sharedCreator == 1 && len(tok) >= 2 && tok[0] == 'C' && tok[1] >= '0' && tok[1] <= '9' {
		tok = "C-shared"
	}
	if it, ok := lx.fn[tok]; ok {
		return it
	}
	sh := symShapes[lx.rng.Intn(len(symShapes))]
	lx.n++
	uniq := ""
	if lx.rng.Intn(2) == 0 || true {
		uniq = fmt.Sprintf("ₓ%d", lx.n) // keeps symbols of one case distinct; non-ASCII on purpose
		if lx.rng.Intn(2) == 0 {
			uniq = fmt.Sprintf("_%d", lx.n)
		}
	}
	if lx.res != nil && lx.rng.Intn(60) == 0 { // only in the print replay (drivers that try every byte offset pass no Result)
		// a symbol longer than the 16 KiB read buffer (and sometimes than four of them)
		uniq += strings.Repeat("L", []int{16300, 16384, 20000, 70000}[lx.rng.Intn(4)])
		if lx.res != nil {
			lx.res.row("symbol", "longer than the read buffer")
		}
	}
	it := mkFn(sh, uniq)
	lx.fn[tok] = &it
	if lx.res != nil {
		lx.res.row("symbol", sh.row)
	}
	return &it
}

func (lx *lexicon) argsOf(tok string) *argsItem {
	if it, ok := lx.args[tok]; ok {
		return it
	}
	budget := 12
	nodes, el := genArgs(lx.rng, 0, &budget)
	if len(nodes) == 0 {
		el = false
	}
	it := &argsItem{nodes: nodes, elided: el, text: printArgs(nodes, el)}
	lx.args[tok] = it
	return it
}

func (lx *lexicon) fileOf(tok string) *fileItem {
	if it, ok := lx.file[tok]; ok {
		return it
	}
	sh := fileShapes[lx.rng.Intn(len(fileShapes))]
	if lx.res != nil && lx.rng.Intn(60) == 0 {
		sh = fileShape{path: "/long/" + strings.Repeat("d", []int{16370, 33000}[lx.rng.Intn(2)]) + "/f.go", row: "longer than the read buffer"}
	}
	it := mkFile(sh, lx.rng)
	lx.file[tok] = &it
	if lx.res != nil {
		lx.res.row("file", sh.row)
	}
	return &it
}

func (lx *lexicon) hdrOf(absID int) *hdrItem {
	if it, ok := lx.hdr[absID]; ok {
		return it
	}
	it := mkHdr(lx.id(absID), lx.rng)
	lx.hdr[absID] = &it
	if lx.res != nil {
		lx.res.row("state", it.row)
	}
	return &it
}

func (lx *lexicon) addrOf(i int) uint64 {
	if v, ok := lx.addrs[i]; ok {
		return v
	}
	v := uint64(0x00c000010000) + uint64(lx.rng.Intn(1<<20))*8
	if lx.rng.Intn(2) == 0 && lx.firstAddr != 0 {
		v = lx.firstAddr // most reports race on one address
	}
	if lx.firstAddr == 0 {
		lx.firstAddr = v
	}
	lx.addrs[i] = v
	return v
}

func validUTF8(s string) bool { return utf8.ValidString(s) }
