package main

import (
	"bytes"
	"encoding/json"
	"fmt"
	"math/rand"
	"os"
	"reflect"
	"runtime"
	"sort"
	"strings"
	"sync"

	"github.com/maruel/panicparse/v2/stack"
)

// Replay of MC_Agg behaviours (spec/MC_Agg.tla, spec/Aggregate.tla).

type absArg struct {
	K     string   `json:"k"`
	V     uint64   `json:"v"`
	Ptr   bool     `json:"ptr"`
	Name  string   `json:"name"`
	Big   bool     `json:"big"`
	Inacc bool     `json:"inacc"`
	F     []absArg `json:"f"`
	El    bool     `json:"el"`
}

type absArgs struct {
	V  []absArg `json:"v"`
	El bool     `json:"el"`
}

type absFrame struct {
	Fn     string  `json:"fn"`
	File   string  `json:"file"`
	Dirsrc string  `json:"dirsrc"`
	Line   int     `json:"line"`
	Loc    string  `json:"loc"`
	Main   bool    `json:"main"`
	Args   absArgs `json:"args"`
}

type absSig struct {
	State   string     `json:"state"`
	Created []absFrame `json:"created"`
	Locked  bool       `json:"locked"`
	Smin    int        `json:"smin"`
	Smax    int        `json:"smax"`
	Elided  bool       `json:"elided"`
	Fr      []absFrame `json:"fr"`
}

type absBucket struct {
	IDs   []int  `json:"ids"`
	First bool   `json:"first"`
	Sig   absSig `json:"sig"`
}

type aggCase struct {
	raw     string
	Snap    []int       `json:"snap"`
	Lvl     string      `json:"lvl"`
	Rev     string      `json:"rev"`
	Buckets []absBucket `json:"buckets"`
}

const ptrBase = 0xc000000000

var stateText = map[string]string{"s1": "chan receive", "s2": "select", "s3": "IO wait"}
var locOf = map[string]stack.Location{"Unknown": stack.LocationUnknown, "GoMod": stack.GoMod, "GOPATH": stack.GOPATH, "GoPkg": stack.GoPkg, "Stdlib": stack.Stdlib}

func levelOf(s string) stack.Similarity {
	switch s {
	case "ExactFlags":
		return stack.ExactFlags
	case "ExactLines":
		return stack.ExactLines
	case "AnyPointer":
		return stack.AnyPointer
	}
	return stack.AnyValue
}

func concVal(a *absArg) uint64 {
	if a.Ptr {
		return ptrBase + a.V
	}
	return a.V
}

func mkArgs(a absArgs) stack.Args {
	out := stack.Args{Elided: a.El}
	for i := range a.V {
		x := &a.V[i]
		if x.K == "a" {
			out.Values = append(out.Values, stack.Arg{IsAggregate: true, Fields: mkArgs(absArgs{V: x.F, El: x.El})})
		} else {
			out.Values = append(out.Values, stack.Arg{Value: concVal(x), IsPtr: x.Ptr, Name: x.Name, IsOffsetTooLarge: x.Big, IsInaccurate: x.Inacc})
		}
	}
	return out
}

// symbol / path of the abstract tokens
func fnSym(f *absFrame) (pkg, name string) {
	if f.Main {
		return "main", f.Fn
	}
	return "example.com/pkg", f.Fn
}

func filePathOf(tok string) string {
	// dir/file tokens are "d/x.go" or "x.go"
	if strings.Contains(tok, "/") {
		return "/src/" + tok
	}
	if strings.HasPrefix(tok, "w") {
		return tok // a source path without any directory (e.g. _cgo_gotypes.go)
	}
	return "/src/pkg/" + tok
}

func mkCall(f *absFrame) stack.Call {
	pkg, name := fnSym(f)
	c := stack.Call{Args: mkArgs(f.Args), RemoteSrcPath: filePathOf(f.File), Line: f.Line, Location: locOf[f.Loc]}
	_ = c.Func.Init(pathToPrefix(pkg) + "." + name)
	c.ImportPath = c.Func.ImportPath
	p := c.RemoteSrcPath
	if i := strings.LastIndexByte(p, '/'); i != -1 {
		c.SrcName = p[i+1:]
		if j := strings.LastIndexByte(p[:i], '/'); j != -1 {
			c.DirSrc = p[j+1:]
		}
	} else {
		c.SrcName = p
	}
	return c
}

func mkSig(s *absSig) stack.Signature {
	out := stack.Signature{State: stateText[s.State], SleepMin: s.Smin, SleepMax: s.Smax, Locked: s.Locked}
	out.Stack.Elided = s.Elided
	for i := range s.Fr {
		out.Stack.Calls = append(out.Stack.Calls, mkCall(&s.Fr[i]))
	}
	for i := range s.Created {
		out.CreatedBy.Calls = append(out.CreatedBy.Calls, mkCall(&s.Created[i]))
	}
	return out
}

func printArgsAbs(a absArgs) string {
	var parts []string
	for i := range a.V {
		x := &a.V[i]
		switch {
		case x.K == "a":
			parts = append(parts, "{"+printArgsAbs(absArgs{V: x.F, El: x.El})+"}")
		case x.Big:
			parts = append(parts, "_")
		default:
			s := fmt.Sprintf("0x%x", concVal(x))
			if x.Inacc {
				s += "?"
			}
			parts = append(parts, s)
		}
	}
	if a.El {
		parts = append(parts, "...")
	}
	return strings.Join(parts, ", ")
}

func printSig(sb *strings.Builder, id int, s *absSig) {
	hdr := stateText[s.State]
	if s.Smax != 0 {
		hdr += fmt.Sprintf(", %d minutes", s.Smax)
	}
	if s.Locked {
		hdr += ", locked to thread"
	}
	fmt.Fprintf(sb, "goroutine %d [%s]:\n", id, hdr)
	for i := range s.Fr {
		f := &s.Fr[i]
		pkg, name := fnSym(f)
		fmt.Fprintf(sb, "%s.%s(%s)\n\t%s:%d +0x1f\n", pathToPrefix(pkg), name, printArgsAbs(f.Args), filePathOf(f.File), f.Line)
	}
	if s.Elided {
		sb.WriteString("...additional frames elided...\n")
	}
	for i := range s.Created {
		f := &s.Created[i]
		pkg, name := fnSym(f)
		fmt.Fprintf(sb, "created by %s.%s\n\t%s:%d +0x2a\n", pathToPrefix(pkg), name, filePathOf(f.File), f.Line)
	}
}

// projection of a real signature back to the abstract record
func revState(s string) string {
	for k, v := range stateText {
		if v == s {
			return k
		}
	}
	return "?" + s
}

func projArgs(a *stack.Args) absArgs {
	out := absArgs{V: []absArg{}, El: a.Elided}
	for i := range a.Values {
		v := &a.Values[i]
		if v.IsAggregate {
			p := projArgs(&v.Fields)
			out.V = append(out.V, absArg{K: "a", F: p.V, El: p.El})
		} else {
			x := absArg{K: "v", V: v.Value, Ptr: v.IsPtr, Name: v.Name, Big: v.IsOffsetTooLarge, Inacc: v.IsInaccurate, F: []absArg{}}
			if v.IsPtr && v.Value >= ptrBase {
				x.V = v.Value - ptrBase
			}
			out.V = append(out.V, x)
		}
	}
	return out
}

func projFrame(c *stack.Call) absFrame {
	f := absFrame{Fn: c.Func.Name, Line: c.Line, Main: c.Func.IsPkgMain, Args: projArgs(&c.Args)}
	for k, v := range locOf {
		if v == c.Location {
			f.Loc = k
		}
	}
	p := strings.TrimPrefix(c.RemoteSrcPath, "/src/")
	p = strings.TrimPrefix(p, "pkg/")
	f.File = p
	f.Dirsrc = p
	return f
}

func projSig(s *stack.Signature) absSig {
	out := absSig{State: revState(s.State), Locked: s.Locked, Smin: s.SleepMin, Smax: s.SleepMax, Elided: s.Stack.Elided, Fr: []absFrame{}, Created: []absFrame{}}
	for i := range s.Stack.Calls {
		out.Fr = append(out.Fr, projFrame(&s.Stack.Calls[i]))
	}
	for i := range s.CreatedBy.Calls {
		out.Created = append(out.Created, projFrame(&s.CreatedBy.Calls[i]))
	}
	return out
}

func normArgs(a *absArgs) {
	if a.V == nil {
		a.V = []absArg{}
	}
	for i := range a.V {
		if a.V[i].F == nil {
			a.V[i].F = []absArg{}
		}
		sub := absArgs{V: a.V[i].F}
		normArgs(&sub)
		a.V[i].F = sub.V
	}
}

func normSig(s *absSig) {
	if s.Fr == nil {
		s.Fr = []absFrame{}
	}
	if s.Created == nil {
		s.Created = []absFrame{}
	}
	for i := range s.Fr {
		normArgs(&s.Fr[i].Args)
		if s.Fr[i].Dirsrc != "" || strings.Contains(s.Fr[i].File, "/") || !strings.HasPrefix(s.Fr[i].File, "w") {
			s.Fr[i].Dirsrc = s.Fr[i].File
		}
	}
	for i := range s.Created {
		normArgs(&s.Created[i].Args)
		s.Created[i].Dirsrc = s.Created[i].File
	}
}

// generic checks on a real aggregation, independent of the case: C04's
// partition and C12's truthfulness clause.
func genericAggChecks(snap *stack.Snapshot, a *stack.Aggregated, what string) (c04, c12 string) {
	byID := map[int]*stack.Goroutine{}
	for _, g := range snap.Goroutines {
		byID[g.ID] = g
	}
	seen := map[int]int{}
	firstBuckets := 0
	for bi, b := range a.Buckets {
		if len(b.IDs) == 0 {
			c04 = fmt.Sprintf("%s: bucket %d is empty", what, bi)
		}
		if !sort.IntsAreSorted(b.IDs) {
			c04 = fmt.Sprintf("%s: bucket %d ids not ascending: %v", what, bi, b.IDs)
		}
		hasFirst := false
		for k, id := range b.IDs {
			if k > 0 && b.IDs[k-1] == id {
				c04 = fmt.Sprintf("%s: id %d twice in bucket %d", what, id, bi)
			}
			if _, dup := seen[id]; dup {
				c04 = fmt.Sprintf("%s: id %d in two buckets", what, id)
			}
			seen[id] = bi
			g := byID[id]
			if g == nil {
				c04 = fmt.Sprintf("%s: bucket %d lists id %d which is not in the snapshot", what, bi, id)
				continue
			}
			if g.First {
				hasFirst = true
			}
		}
		if hasFirst != b.First {
			c04 = fmt.Sprintf("%s: bucket %d First=%v but contains the first goroutine: %v", what, bi, b.First, hasFirst)
		}
		if b.First {
			firstBuckets++
		}
		// C12
		min, max, locked := -1, -1, false
		for _, id := range b.IDs {
			g := byID[id]
			if g == nil {
				continue
			}
			if min == -1 || g.SleepMin < min {
				min = g.SleepMin
			}
			if g.SleepMax > max {
				max = g.SleepMax
			}
			locked = locked || g.Locked
			if g.State != b.State {
				c12 = fmt.Sprintf("%s: bucket %d state %q but member %d has %q", what, bi, b.State, id, g.State)
			}
			if len(g.Stack.Calls) != len(b.Stack.Calls) || len(g.CreatedBy.Calls) != len(b.CreatedBy.Calls) || g.Stack.Elided != b.Stack.Elided {
				c12 = fmt.Sprintf("%s: bucket %d stack shape differs from member %d", what, bi, id)
				continue
			}
			for ci := range b.Stack.Calls {
				bc, gc := &b.Stack.Calls[ci], &g.Stack.Calls[ci]
				if bc.Func.Complete != gc.Func.Complete || bc.RemoteSrcPath != gc.RemoteSrcPath || bc.Line != gc.Line {
					c12 = fmt.Sprintf("%s: bucket %d frame %d differs from member %d", what, bi, ci, id)
				}
				if m := argsTruthful(&bc.Args, &gc.Args); m != "" {
					c12 = fmt.Sprintf("%s: bucket %d frame %d vs member %d: %s", what, bi, ci, id, m)
				}
			}
			for ci := range b.CreatedBy.Calls {
				bc, gc := &b.CreatedBy.Calls[ci], &g.CreatedBy.Calls[ci]
				if bc.Func.Complete != gc.Func.Complete || bc.RemoteSrcPath != gc.RemoteSrcPath || bc.Line != gc.Line {
					c12 = fmt.Sprintf("%s: bucket %d creator differs from member %d", what, bi, id)
				}
			}
		}
		if min != -1 && b.SleepMin == min && b.SleepMax == max {
			// the range as it is presented
			var nums []int
			cur, in := 0, false
			for _, ch := range b.SleepString() + " " {
				if ch >= '0' && ch <= '9' {
					cur = cur*10 + int(ch-'0')
					in = true
				} else if in {
					nums = append(nums, cur)
					cur, in = 0, false
				}
			}
			ok := (max == 0 && len(nums) == 0) || (max != 0 && min == max && len(nums) == 1 && nums[0] == max) ||
				(max != 0 && min != max && len(nums) == 2 && nums[0] == min && nums[1] == max)
			if !ok {
				c12 = fmt.Sprintf("%s: bucket %d sleeps %d~%d minutes but SleepString() says %q", what, bi, min, max, b.SleepString())
			}
		}
		if min != -1 && (b.SleepMin != min || b.SleepMax != max) {
			c12 = fmt.Sprintf("%s: bucket %d sleep range %d~%d, members' is %d~%d", what, bi, b.SleepMin, b.SleepMax, min, max)
		}
		if min != -1 && b.Locked != locked {
			c12 = fmt.Sprintf("%s: bucket %d locked=%v, some member locked=%v", what, bi, b.Locked, locked)
		}
	}
	if len(seen) != len(snap.Goroutines) {
		c04 = fmt.Sprintf("%s: %d ids in buckets, %d goroutines in the snapshot", what, len(seen), len(snap.Goroutines))
	}
	if len(snap.Goroutines) > 0 && firstBuckets != 1 {
		c04 = fmt.Sprintf("%s: %d buckets flagged first", what, firstBuckets)
	}
	if a.Snapshot != snap {
		c04 = what + ": Aggregated.Snapshot is not the snapshot it was made from"
	}
	return
}

// argsTruthful: every argument the bucket shows without the wildcard equals
// that argument in the member.
func argsTruthful(b, g *stack.Args) string {
	if len(b.Values) != len(g.Values) || b.Elided != g.Elided {
		return "argument list shape differs"
	}
	for i := range b.Values {
		bv, gv := &b.Values[i], &g.Values[i]
		if bv.IsAggregate != gv.IsAggregate {
			return "aggregate/scalar differs"
		}
		if bv.IsAggregate {
			if m := argsTruthful(&bv.Fields, &gv.Fields); m != "" {
				return m
			}
			continue
		}
		if bv.Name == "*" {
			continue
		}
		if bv.Value != gv.Value || bv.IsPtr != gv.IsPtr || bv.IsOffsetTooLarge != gv.IsOffsetTooLarge || bv.Name != gv.Name {
			return fmt.Sprintf("argument %d shown as %s but the member has %s", i, bv.String(), gv.String())
		}
	}
	return ""
}

type aggOut struct {
	IDs   []int
	First bool
	Sig   absSig
}

func projAgg(a *stack.Aggregated) []aggOut {
	var out []aggOut
	for _, b := range a.Buckets {
		out = append(out, aggOut{IDs: b.IDs, First: b.First, Sig: projSig(&b.Signature)})
	}
	return out
}

func checkAggCase(res *Result, ac *aggCase, U []absSig, idx int, repeats int) {
	n := len(ac.Snap)
	idOf := func(p int) int {
		switch ac.Rev {
		case "desc":
			return n + 1 - p
		case "zig":
			if p == 1 {
				return 1
			}
			return n + 2 - p
		}
		return p
	}
	multiCreator := false
	for _, x := range ac.Snap {
		if len(U[x-1].Created) > 1 {
			multiCreator = true // a creation STACK (race report): cannot be printed as a goroutine dump
		}
	}
	lvl := levelOf(ac.Lvl)
	want := []aggOut{}
	for i := range ac.Buckets {
		b := &ac.Buckets[i]
		normSig(&b.Sig)
		want = append(want, aggOut{IDs: b.IDs, First: b.First, Sig: b.Sig})
	}
	mk := func(prop, aspect, what string, exp, got interface{}) Finding {
		return Finding{Property: prop, Aspect: aspect, What: fmt.Sprintf("agg case %d: %s", idx, what), Case: map[string]interface{}{"snap": ac.Snap, "lvl": ac.Lvl, "rev": ac.Rev}, Expected: exp, Observed: got}
	}
	build := func(route string) *stack.Snapshot {
		if route == "direct" {
			s := &stack.Snapshot{}
			for p := 1; p <= n; p++ {
				g := &stack.Goroutine{Signature: mkSig(&U[ac.Snap[p-1]-1]), ID: idOf(p), First: p == 1}
				s.Goroutines = append(s.Goroutines, g)
			}
			return s
		}
		var sb strings.Builder
		for p := 1; p <= n; p++ {
			if p > 1 {
				sb.WriteString("\n")
			}
			printSig(&sb, idOf(p), &U[ac.Snap[p-1]-1])
		}
		s, _, _ := stack.ScanSnapshot(strings.NewReader(sb.String()), discard{}, &stack.Opts{})
		return s
	}
	for _, route := range []string{"direct", "parsed"} {
		if route == "parsed" && multiCreator {
			continue
		}
		snap := build(route)
		if snap == nil || len(snap.Goroutines) != n {
			res.violation(mk("C01", "parse", route+": the printed snapshot did not parse back to "+fmt.Sprint(n)+" goroutines", n, nil))
			continue
		}
		var first []aggOut
		for r := 0; r < repeats; r++ {
			a := func() (a *stack.Aggregated) {
				defer func() {
					if e := recover(); e != nil {
						res.violation(mk("C03", "panic", fmt.Sprintf("%s: Aggregate panicked: %v", route, e), nil, fmt.Sprint(e)))
						for _, p := range []string{"C04", "C05", "C12"} {
							res.violation(mk(p, "no-result", fmt.Sprintf("%s: Aggregate panicked instead of returning buckets: %v", route, e), nil, fmt.Sprint(e)))
						}
					}
				}()
				return snap.Aggregate(lvl)
			}()
			if a == nil {
				break
			}
			got := projAgg(a)
			if r == 0 {
				first = got
				// the sleep range as the HTML page presents it: minimum and maximum over the members
				{
					var hb bytes.Buffer
					if a.ToHTML(&hb, "") == nil {
						page := hb.String()
						for _, b := range a.Buckets {
							if b.SleepMax > 0 && b.SleepMin != b.SleepMax && !strings.Contains(page, fmt.Sprintf("[%d~%d mins]", b.SleepMin, b.SleepMax)) {
								res.violation(mk("C12", "html-sleep", fmt.Sprintf("%s: the page does not show the sleep range %d~%d of the bucket of goroutines %v", route, b.SleepMin, b.SleepMax, b.IDs), fmt.Sprintf("[%d~%d mins]", b.SleepMin, b.SleepMax), nil))
								break
							}
						}
					}
				}
				c04, c12 := genericAggChecks(snap, a, route)
				if c04 != "" {
					res.violation(mk("C04", "partition", c04, nil, got))
				}
				if c12 != "" {
					res.violation(mk("C12", "truthful", c12, nil, got))
				}
				// against the specification
				wantSets, gotSets := idSets(want), idSets(got)
				if !reflect.DeepEqual(wantSets, gotSets) {
					res.violation(mk("C05", "classes", route+": buckets are not the similarity classes the specification computes", wantSets, gotSets))
					res.violation(mk("C04", "partition", route+": bucket id lists differ from the specification", wantSets, gotSets))
					break
				}
				for i := range got {
					if i < len(want) && (!reflect.DeepEqual(got[i].IDs, want[i].IDs) || got[i].First != want[i].First) {
						f := mk("C13", "order", route+": bucket order differs from the specification's comparator", idLists(want), idLists(got))
						if len(got) > 0 && !got[0].First {
							f.What += "; the bucket of the first goroutine is not first"
							res.violation(f)
						} else {
							res.drift(f) // a different order among buckets the contract does not rank (this universe has no location / main-package differences)
						}
						break
					}
				}
				if len(got) == len(want) {
					byIDs := map[string]absSig{}
					for _, w := range want {
						byIDs[fmt.Sprint(w.IDs)] = w.Sig
					}
					for _, g := range got {
						if w, ok := byIDs[fmt.Sprint(g.IDs)]; ok && !reflect.DeepEqual(starNorm(w, len(g.IDs) > 1), starNorm(g.Sig, len(g.IDs) > 1)) {
							res.violation(mk("C12", "generalise", route+": merged signature differs from Generalise(members)", w, g.Sig))
							break
						}
					}
				}
			} else if !reflect.DeepEqual(first, got) {
				res.violation(mk("C06", "repeat", fmt.Sprintf("%s: aggregating the same snapshot again (run %d) gives a different result", route, r+1), idLists(first), idLists(got)))
				break
			}
		}
		// the classes do not depend on what the snapshot was used for before: coarser levels first
		if first != nil {
			func() {
				defer func() {
					if r := recover(); r != nil {
						res.violation(mk("C03", "panic", fmt.Sprintf("%s: aggregating the snapshot at every level panicked: %v", route, r), nil, fmt.Sprint(r)))
					}
				}()
				for _, lv2 := range []stack.Similarity{stack.AnyValue, stack.AnyPointer, stack.ExactLines, stack.ExactFlags} {
					_ = snap.Aggregate(lv2)
				}
				again := projAgg(snap.Aggregate(lvl))
				if !reflect.DeepEqual(idSets(want), idSets(again)) {
					res.violation(mk("C05", "classes-after-history", route+": after aggregating the same snapshot at the other levels, the buckets at this level are no longer the similarity classes", idSets(want), idSets(again)))
					res.violation(mk("C14", "mutated", route+": earlier aggregations changed what a later one returns", idSets(want), idSets(again)))
				} else if !reflect.DeepEqual(first, again) {
					// same classes, other signatures: what is shown for a bucket no longer describes its members as dumped
					res.violation(mk("C12", "signature-after-history", route+": after aggregating the same snapshot at the other levels, the signature shown for a bucket differs from the one a fresh snapshot gives", first, again))
					res.violation(mk("C14", "mutated", route+": earlier aggregations changed what a later one returns", first, again))
				}
			}()
		}
	}
}

// starNorm drops what C12 does not speak about: under the wildcard the value that happens to be
// kept, and (for merged buckets) the inaccuracy marker of arguments the members agree on.
func starNorm(s absSig, merged bool) absSig {
	var fix func(a []absArg) []absArg
	fix = func(a []absArg) []absArg {
		out := make([]absArg, len(a))
		for i, x := range a {
			if x.Name == "*" {
				x.V, x.Ptr, x.Big, x.Inacc = 0, false, false, false
			}
			if merged {
				x.Inacc = false
			}
			x.F = fix(x.F)
			out[i] = x
		}
		return out
	}
	out := s
	out.Fr = append([]absFrame{}, s.Fr...)
	for i := range out.Fr {
		out.Fr[i].Args.V = fix(out.Fr[i].Args.V)
	}
	return out
}

type discard struct{}

func (discard) Write(p []byte) (int, error) { return len(p), nil }

func idSets(bs []aggOut) []string {
	var out []string
	for _, b := range bs {
		ids := append([]int{}, b.IDs...)
		sort.Ints(ids)
		out = append(out, fmt.Sprint(ids, b.First))
	}
	sort.Strings(out)
	return out
}

func idLists(bs []aggOut) [][]int {
	var out [][]int
	for _, b := range bs {
		out = append(out, b.IDs)
	}
	return out
}

func init() {
	register("agg", "replay MC_Agg behaviours through Snapshot.Aggregate (directly constructed and parsed snapshots)", func(args []string) error {
		c := newCommon("agg")
		repeats := c.fs.Int("repeats", 5, "aggregations per case (Go randomises map iteration each time)")
		traceOut := c.fs.String("trace", "", "write ndjson records of large random aggregations here")
		_ = c.fs.Parse(args)
		res := newResult("one case = (sequence of goroutines drawn from the universe U of one-attribute variants, similarity level, id order) with the buckets (ids, first flag, order, merged signature) the specification computes; replayed on directly constructed goroutines and on the printed-and-parsed dump; non-trivial = at least two goroutines")
		var U []absSig
		var cases []aggCase
		seen := map[string]bool{}
		err := scanTLC(*c.in, func(tag string, js []byte) error {
			switch tag {
			case "UNIV":
				var u struct {
					U []absSig `json:"U"`
				}
				if err := json.Unmarshal(js, &u); err != nil {
					return err
				}
				U = u.U
			case "CASE":
				if seen[string(js)] {
					return nil
				}
				seen[string(js)] = true
				var ac aggCase
				if err := json.Unmarshal(js, &ac); err != nil {
					return err
				}
				ac.raw = string(js)
				cases = append(cases, ac)
			}
			return nil
		})
		if err != nil {
			return err
		}
		sortByKey(len(cases), func(i int) string { return cases[i].raw }, func(i, j int) { cases[i], cases[j] = cases[j], cases[i] })
		if len(cases) == 0 || len(U) == 0 {
			res.infra("no cases / universe")
			return res.write(*c.out)
		}
		for i := range U {
			normSig(&U[i])
		}
		var wg sync.WaitGroup
		ch := make(chan int, 256)
		for w := 0; w < runtime.NumCPU(); w++ {
			wg.Add(1)
			go func() {
				defer wg.Done()
				for i := range ch {
					ac := &cases[i]
					checkAggCase(res, ac, U, i, *repeats)
					var sample interface{}
					if i%1777 == 0 {
						sample = map[string]interface{}{"snap": ac.Snap, "lvl": ac.Lvl, "rev": ac.Rev, "buckets": idLists(func() []aggOut {
							var o []aggOut
							for _, b := range ac.Buckets {
								o = append(o, aggOut{IDs: b.IDs})
							}
							return o
						}())}
					}
					res.eval(fmt.Sprint(ac.Snap, ac.Lvl, ac.Rev), len(ac.Snap) >= 2, sample)
				}
			}()
		}
		for i := range cases {
			ch <- i
		}
		close(ch)
		wg.Wait()
		if *traceOut != "" {
			if err := writeAggTraces(*traceOut, U, rand.New(rand.NewSource(*c.seed)), *c.tier == "thorough", res); err != nil {
				return err
			}
		}
		return res.write(*c.out)
	})
}

// writeAggTraces aggregates large random snapshots drawn from U and records,
// per aggregation, the snapshot (indices into U), the level and the bucket id
// lists, for TLC to check against Aggregate.tla's Key (spec/Trace_Agg.tla).
func writeAggTraces(path string, U []absSig, rng *rand.Rand, thorough bool, res *Result) error {
	f, err := os.Create(path)
	if err != nil {
		return err
	}
	defer f.Close()
	enc := json.NewEncoder(f)
	sizes := []int{10, 50, 200, 1000}
	if thorough {
		sizes = []int{10, 50, 200, 1000, 3000, 5000}
	}
	for _, n := range sizes {
		for _, lv := range []string{"ExactFlags", "ExactLines", "AnyPointer", "AnyValue"} {
			snapIdx := make([]int, n)
			s := &stack.Snapshot{}
			perm := rng.Perm(n)
			for p := 0; p < n; p++ {
				snapIdx[p] = 1 + rng.Intn(len(U))
				g := &stack.Goroutine{Signature: mkSig(&U[snapIdx[p]-1]), ID: 1 + perm[p], First: p == 0}
				s.Goroutines = append(s.Goroutines, g)
			}
			a := func() (a *stack.Aggregated) {
				defer func() {
					if e := recover(); e != nil {
						for _, p := range []string{"C03", "C04", "C05", "C12"} {
							res.violation(Finding{Property: p, Aspect: "panic", What: fmt.Sprintf("random snapshot of %d at %s: Aggregate panicked instead of returning buckets: %v", n, lv, e)})
						}
					}
				}()
				return s.Aggregate(levelOf(lv))
			}()
			if a == nil {
				continue
			}
			c04, c12 := genericAggChecks(s, a, fmt.Sprintf("random snapshot of %d at %s", n, lv))
			if c04 != "" {
				res.violation(Finding{Property: "C04", Aspect: "partition", What: c04})
			}
			if c12 != "" {
				res.violation(Finding{Property: "C12", Aspect: "truthful", What: c12})
			}
			// ids -> position
			posOf := map[int]int{}
			for p, g := range s.Goroutines {
				posOf[g.ID] = p + 1
			}
			var buckets [][]int
			for _, b := range a.Buckets {
				var ps []int
				for _, id := range b.IDs {
					ps = append(ps, posOf[id])
				}
				buckets = append(buckets, ps)
			}
			_ = enc.Encode(map[string]interface{}{"snap": snapIdx, "lvl": lv, "buckets": buckets})
			res.count("agg_trace_records", 1)
			res.count("agg_trace_goroutines", n)
		}
	}
	return nil
}
