package main

import (
	"crypto/sha1"
	"encoding/hex"
	"encoding/json"
	"fmt"
	"os"
	"sort"
	"sync"
)

// Finding is one disagreement between the real code and the specification.
type Finding struct {
	Property string      `json:"property"`
	Aspect   string      `json:"aspect"`          // what differs
	Known    string      `json:"known,omitempty"` // id of the known finding that explains it, if any
	What     string      `json:"what"`
	Case     interface{} `json:"case,omitempty"` // abstract case
	Input    []byte      `json:"input_b64,omitempty"`
	Expected interface{} `json:"expected,omitempty"`
	Observed interface{} `json:"observed,omitempty"`
	Extra    interface{} `json:"extra,omitempty"`
}

// Result is what every subcommand writes.
type Result struct {
	mu          sync.Mutex
	Evaluations int                 `json:"evaluations"`
	Nontrivial  int                 `json:"distinct_nontrivial"`
	Rule        string              `json:"rule"`
	Samples     []interface{}       `json:"samples"`
	Violations  []Finding           `json:"violations"`
	Known       []Finding           `json:"known"`
	KnownCount  map[string]int      `json:"known_count"`
	ViolCount   map[string]int      `json:"violation_count"`
	Counters    map[string]int      `json:"counters"`
	Tables      map[string][]string `json:"tables,omitempty"`
	Infra       []string            `json:"infra,omitempty"` // infrastructure problems: exit 2
	Drift       []Finding           `json:"drift,omitempty"` // the code departs from the model where no property is at stake
	DriftCount  map[string]int      `json:"drift_count,omitempty"`
	shapes      map[string]struct{}
	tables      map[string]map[string]struct{}
}

func newResult(rule string) *Result {
	return &Result{Rule: rule, KnownCount: map[string]int{}, ViolCount: map[string]int{}, Counters: map[string]int{},
		shapes: map[string]struct{}{}, tables: map[string]map[string]struct{}{}}
}

const maxKept = 25

func (r *Result) violation(f Finding) {
	r.mu.Lock()
	defer r.mu.Unlock()
	r.ViolCount[f.Property]++
	n := 0
	for _, v := range r.Violations {
		if v.Property == f.Property {
			n++
		}
	}
	if n < maxKept {
		r.Violations = append(r.Violations, f)
	}
}

// saturated says that a property already has so many violations that looking for more only
// costs time: drivers skip the remaining cases.
func (r *Result) saturated(props ...string) bool {
	r.mu.Lock()
	defer r.mu.Unlock()
	for _, p := range props {
		if r.ViolCount[p] >= 200 {
			return true
		}
	}
	return false
}

// drift records that the code behaves differently from the specification in a way that the
// property does not forbid (the property-level checks of the same case passed): the model needs
// updating, but it is not a violation.
func (r *Result) drift(f Finding) {
	r.mu.Lock()
	defer r.mu.Unlock()
	if r.DriftCount == nil {
		r.DriftCount = map[string]int{}
	}
	r.DriftCount[f.Property+" "+f.Aspect]++
	if r.DriftCount[f.Property+" "+f.Aspect] <= 3 {
		r.Drift = append(r.Drift, f)
	}
}

func (r *Result) known(f Finding) {
	r.mu.Lock()
	defer r.mu.Unlock()
	key := f.Property + " " + f.Known
	r.KnownCount[key]++
	if r.KnownCount[key] <= 3 {
		r.Known = append(r.Known, f)
	}
}

func (r *Result) count(name string, n int) {
	r.mu.Lock()
	r.Counters[name] += n
	r.mu.Unlock()
}

// eval records one evaluated case; shape identifies the case for the distinct
// count; nontrivial says whether it counts as non-trivial by the stated rule.
func (r *Result) eval(shape string, nontrivial bool, sample interface{}) {
	r.mu.Lock()
	defer r.mu.Unlock()
	r.Evaluations++
	if nontrivial {
		h := sha1.Sum([]byte(shape))
		k := hex.EncodeToString(h[:8])
		if _, ok := r.shapes[k]; !ok {
			r.shapes[k] = struct{}{}
			r.Nontrivial++
		}
	}
	if sample != nil && len(r.Samples) < 5 {
		r.Samples = append(r.Samples, sample)
	}
}

// row records that a row of a lexical table was exercised.
func (r *Result) row(table, row string) {
	r.mu.Lock()
	defer r.mu.Unlock()
	m := r.tables[table]
	if m == nil {
		m = map[string]struct{}{}
		r.tables[table] = m
	}
	m[row] = struct{}{}
}

func (r *Result) infra(format string, a ...interface{}) {
	r.mu.Lock()
	defer r.mu.Unlock()
	if len(r.Infra) < 20 {
		r.Infra = append(r.Infra, fmt.Sprintf(format, a...))
	}
}

func (r *Result) write(path string) error {
	r.mu.Lock()
	defer r.mu.Unlock()
	if len(r.tables) != 0 {
		r.Tables = map[string][]string{}
		for t, m := range r.tables {
			var rows []string
			for k := range m {
				rows = append(rows, k)
			}
			sort.Strings(rows)
			r.Tables[t] = rows
		}
	}
	if r.Samples == nil {
		r.Samples = []interface{}{}
	}
	b, err := json.MarshalIndent(r, "", " ")
	if err != nil {
		return err
	}
	if path == "" {
		_, err = os.Stdout.Write(b)
		return err
	}
	return os.WriteFile(path, b, 0o644)
}
