package main

import (
	"bytes"
	"errors"
	"fmt"
	"io"
	"math/rand"
	"runtime/debug"

	"github.com/maruel/panicparse/v2/stack"
)

// errInjected is the sentinel used for every injected reader failure.
var errInjected = errors.New("verif: injected reader failure")

// errInjectedEOF is a reader failure whose chain contains io.EOF (transports wrap it): it is a
// failure, not the end of the stream.
var errInjectedEOF = fmt.Errorf("verif: injected transport failure: %w", io.EOF)

// errBudget is returned (and recorded) when the code under test asks for more
// reads than any terminating scan of the input could need.
var errBudget = errors.New("verif: read budget exhausted (hang)")

// readEvent records one Read call on the scripted source.
type readEvent struct {
	Offered   int    // len(p)
	N         int    // bytes returned
	Err       string // "", "eof", "err"
	Delivered int    // bytes delivered so far, after this read
	Written   int    // bytes the prefix writer had received when Read was entered
	Call      int    // index (0-based) of the ScanSnapshot call that issued the Read
}

// source is a scripted io.Reader over a fixed byte stream. plan gives the
// chunk sizes to deliver (0 = a zero-length read); after the plan is exhausted
// it delivers rest as one chunk per Read of at most dflt bytes. The end of the
// stream is signalled with final (io.EOF or errInjected), either together with
// the last data (withData) or by a separate (0, final) read. It is sticky.
type source struct {
	data     []byte
	pos      int
	plan     []int
	dflt     int
	final    error
	withData bool
	done     bool
	reads    int
	budget   int
	log      []readEvent
	keepLog  bool
	written  func() int // bytes received by the prefix writer so far
	call     int        // index of the call in progress (set by runStream)
	finalAt  int        // index of the call during which the end of the stream was first signalled (-1: not yet)
	hung     bool
}

func newSource(data []byte, plan []int, dflt int, final error, withData bool) *source {
	if dflt <= 0 {
		dflt = 1 << 30
	}
	if final == nil {
		final = io.EOF
	}
	return &source{data: data, plan: plan, dflt: dflt, final: final, withData: withData, finalAt: -1,
		budget: 4*len(data) + 100*len(plan) + 1000}
}

func (s *source) unread() []byte { return s.data[s.pos:] }

func (s *source) Read(p []byte) (int, error) {
	s.reads++
	w := 0
	if s.written != nil {
		w = s.written()
	}
	if s.reads > s.budget {
		s.hung = true
		return 0, errBudget
	}
	ev := readEvent{Offered: len(p), Written: w, Call: s.call}
	n, err := s.read(p)
	if err != nil && s.finalAt < 0 {
		s.finalAt = s.call
	}
	ev.N = n
	if err == io.EOF {
		ev.Err = "eof"
	} else if err != nil {
		ev.Err = "err"
	}
	ev.Delivered = s.pos
	if s.keepLog {
		s.log = append(s.log, ev)
	}
	return n, err
}

func (s *source) read(p []byte) (int, error) {
	if s.done {
		return 0, s.final
	}
	want := s.dflt
	if len(s.plan) > 0 {
		want = s.plan[0]
		s.plan = s.plan[1:]
	}
	if want > len(p) {
		want = len(p)
	}
	rem := len(s.data) - s.pos
	if want > rem {
		want = rem
	}
	if rem == 0 {
		s.done = true
		return 0, s.final
	}
	n := copy(p, s.data[s.pos:s.pos+want])
	s.pos += n
	if s.pos == len(s.data) && s.withData && n > 0 {
		s.done = true
		return n, s.final
	}
	return n, nil
}

// seg is a pushed-back suffix; the resume protocol reads it before the rest.
type seg struct {
	b   []byte
	off int
}

func (s *seg) Read(p []byte) (int, error) {
	if s.off >= len(s.b) {
		return 0, io.EOF
	}
	n := copy(p, s.b[s.off:])
	s.off += n
	return n, nil
}

// recWriter records what the prefix writer receives, piece by piece.
type recWriter struct {
	buf    bytes.Buffer
	pieces []int
	fail   error // if set, returned by every Write
}

func (w *recWriter) Write(p []byte) (int, error) {
	if w.fail != nil {
		return 0, w.fail
	}
	w.pieces = append(w.pieces, len(p))
	return w.buf.Write(p)
}

// callObs is what one ScanSnapshot call exposes.
type callObs struct {
	Fwd      []byte
	Pieces   []int
	Snap     *stack.Snapshot
	Suffix   []byte
	Rest     []byte // suffix ++ everything not yet read from the chain
	Err      error
	ErrClass string // none | eof | reader | parse
	Panic    string
}

func classify(err error) string {
	switch {
	case err == nil:
		return "none"
	case err == io.EOF:
		return "eof"
	case errors.Is(err, errInjected), err == errInjectedEOF, errors.Is(err, io.ErrNoProgress), errors.Is(err, errBudget), errors.Is(err, io.ErrUnexpectedEOF):
		return "reader"
	default:
		return "parse"
	}
}

// scanOnce calls ScanSnapshot under recover().
func scanOnce(in io.Reader, w io.Writer, opts *stack.Opts) (snap *stack.Snapshot, suffix []byte, err error, pan string) {
	defer func() {
		if r := recover(); r != nil {
			pan = fmt.Sprintf("%v\n%s", r, debug.Stack())
		}
	}()
	snap, suffix, err = stack.ScanSnapshot(in, w, opts)
	return
}

// runStream drives the documented resume protocol over one stream: call
// ScanSnapshot, put the returned suffix back in front of what is unread, call
// again, until EOF or a reader error. A parse error does not end the loop: the
// remainder is still handed back and scanning resumes there.
func runStream(src *source, opts *stack.Opts, maxCalls int) []callObs {
	var out []callObs
	var segs []*seg // most recent first
	var in io.Reader = src
	total := 0
	src.written = func() int { return total }
	for i := 0; i < maxCalls; i++ {
		w := &recWriter{}
		src.call = i
		cur := total
		src.written = func() int { return cur + w.buf.Len() }
		snap, suffix, err, pan := scanOnce(in, w, opts)
		total = cur + w.buf.Len()
		o := callObs{Fwd: w.buf.Bytes(), Pieces: w.pieces, Snap: snap, Suffix: suffix, Err: err, ErrClass: classify(err), Panic: pan}
		rest := append([]byte{}, suffix...)
		for _, s := range segs {
			rest = append(rest, s.b[s.off:]...)
		}
		rest = append(rest, src.unread()...)
		o.Rest = rest
		out = append(out, o)
		if pan != "" || src.hung {
			break
		}
		if o.ErrClass == "eof" || o.ErrClass == "reader" {
			break
		}
		sg := &seg{b: suffix}
		segs = append([]*seg{sg}, segs...)
		in = io.MultiReader(sg, in)
	}
	return out
}

// deliveries returns the delivery plans used to replay a stream whose line
// boundaries are known: all at once, one line per Read, one byte per Read and a
// seeded random chunking; each with EOF after the data, plus one with EOF
// together with the last data.
type delivery struct {
	name     string
	plan     []int
	dflt     int
	withData bool
}

func deliveries(lineLens []int, rng *rand.Rand, full bool) []delivery {
	total := 0
	for _, l := range lineLens {
		total += l
	}
	ds := []delivery{{name: "all"}}
	ds = append(ds, delivery{name: "line", plan: append([]int{}, lineLens...)})
	// pieces of two or three lines, and pieces that end in the middle of a line:
	// what a live source that blocks between writes looks like
	{
		var pairs, mid []int
		for i := 0; i < len(lineLens); {
			k := 2 + rng.Intn(2)
			n := 0
			for j := 0; j < k && i < len(lineLens); j++ {
				n += lineLens[i]
				i++
			}
			pairs = append(pairs, n)
		}
		carry := 0
		for i, l := range lineLens {
			if i == len(lineLens)-1 || l < 2 {
				mid = append(mid, carry+l)
				carry = 0
				continue
			}
			h := 1 + rng.Intn(l-1)
			mid = append(mid, carry+h)
			carry = l - h
		}
		if carry > 0 {
			mid = append(mid, carry)
		}
		if full || rng.Intn(2) == 0 {
			ds = append(ds, delivery{name: "pairs", plan: pairs})
		}
		if full || rng.Intn(2) == 0 {
			ds = append(ds, delivery{name: "midline", plan: mid})
		}
	}
	if !full {
		// one more, picked by the seed
		switch rng.Intn(3) {
		case 0:
			ds = append(ds, delivery{name: "byte", dflt: 1})
		case 1:
			ds = append(ds, delivery{name: "all+eof", withData: true})
		default:
			ds = append(ds, delivery{name: "rand", plan: randomPlan(total, rng), withData: rng.Intn(2) == 0})
		}
		return ds
	}
	ds = append(ds, delivery{name: "byte", dflt: 1})
	ds = append(ds, delivery{name: "all+eof", withData: true})
	ds = append(ds, delivery{name: "rand", plan: randomPlan(total, rng), withData: rng.Intn(2) == 0})
	return ds
}

func randomPlan(total int, rng *rand.Rand) []int {
	var plan []int
	for left := total; left > 0; {
		n := 1 + rng.Intn(40)
		if rng.Intn(8) == 0 {
			n = 0
		}
		if n > left {
			n = left
		}
		plan = append(plan, n)
		left -= n
	}
	return plan
}

// errWriteInjected is what the pass-through writer returns once it "fills up".
var errWriteInjected = errors.New("verif: injected writer failure")

// failWriter accepts failAt writes and fails every one after that.
type failWriter struct {
	n, failAt int
	failed    bool
}

func (w *failWriter) Write(p []byte) (int, error) {
	if w.n >= w.failAt {
		w.failed = true
		return 0, errWriteInjected
	}
	w.n++
	return len(p), nil
}

// runStreamFailingWriter runs the resume loop with a pass-through writer that fails from its
// failAt-th write on. It returns the error of the call during which the writer first failed
// (reached = false if the writer never got that far).
func runStreamFailingWriter(src *source, opts *stack.Opts, maxCalls, failAt int) (reached bool, err error, pan string) {
	w := &failWriter{failAt: failAt}
	var in io.Reader = src
	for i := 0; i < maxCalls; i++ {
		_, suffix, e, p := scanOnce(in, w, opts)
		if p != "" {
			return w.failed, e, p
		}
		if w.failed {
			return true, e, ""
		}
		if c := classify(e); c == "eof" || c == "reader" {
			return false, e, ""
		}
		in = io.MultiReader(bytes.NewReader(suffix), in)
	}
	return false, nil, ""
}
