package main

import (
	"encoding/json"
	"fmt"
	"math/rand"
	"runtime"
	"sync"

	"github.com/maruel/panicparse/v2/stack"
)

// C13: the pairwise relation behind the bucket order, observed through
// Aggregate on directly constructed goroutines with known Location/IsPkgMain,
// compared with the relation spec/MC_Less.tla computes on the same universe.

type lessCase struct {
	A    int  `json:"a"`
	B    int  `json:"b"`
	Less bool `json:"less"`
}

func mkOrderSig(s *absSig) stack.Signature {
	out := mkSig(s)
	// Location / IsPkgMain are what the ordering looks at: make them what the universe says.
	for i := range out.Stack.Calls {
		out.Stack.Calls[i].Location = locOf[s.Fr[i].Loc]
		out.Stack.Calls[i].Func.IsPkgMain = s.Fr[i].Main
	}
	return out
}

var firstSig = absSig{State: "s3", Fr: []absFrame{{Fn: "zz", File: "z/z.go", Dirsrc: "z/z.go", Line: 99, Loc: "Unknown"}}}

func bucketPos(a *stack.Aggregated, id int) int {
	for i, b := range a.Buckets {
		for _, x := range b.IDs {
			if x == id {
				return i
			}
		}
	}
	return -1
}

func init() {
	register("order", "C13: pairwise bucket order observed through Aggregate vs MC_Less's relation", func(args []string) error {
		c := newCommon("order")
		_ = c.fs.Parse(args)
		res := newResult("one case = an ordered pair (a, b) of signatures of MC_Less's universe S with SigLess(a, b) as the specification computes it; observed on the real code by aggregating [first, b (id 2), a (id 3)]: a's bucket comes before b's iff a is strictly less (a tie is broken towards the smaller id); plus random snapshots of 3..8 signatures of S whose bucket order must be sorted under the relation; non-trivial = a # b")
		var S []absSig
		var cases []lessCase
		err := scanTLC(*c.in, func(tag string, js []byte) error {
			switch tag {
			case "UNIV":
				var u struct {
					S []absSig `json:"S"`
				}
				if err := json.Unmarshal(js, &u); err != nil {
					return err
				}
				S = u.S
			case "CASE":
				var lc lessCase
				if err := json.Unmarshal(js, &lc); err != nil {
					return err
				}
				cases = append(cases, lc)
			}
			return nil
		})
		if err != nil {
			return err
		}
		if len(S) == 0 || len(cases) == 0 {
			res.infra("no universe / cases")
			return res.write(*c.out)
		}
		for i := range S {
			normSig(&S[i])
		}
		less := map[[2]int]bool{}
		for _, lc := range cases {
			less[[2]int{lc.A, lc.B}] = lc.Less
		}
		var wg sync.WaitGroup
		ch := make(chan lessCase, 256)
		for w := 0; w < runtime.NumCPU(); w++ {
			wg.Add(1)
			go func() {
				defer wg.Done()
				for lc := range ch {
					if lc.A == lc.B {
						res.eval(fmt.Sprint(lc.A, lc.B), false, nil)
						continue
					}
					snap := &stack.Snapshot{Goroutines: []*stack.Goroutine{
						{Signature: mkOrderSig(&firstSig), ID: 1, First: true},
						{Signature: mkOrderSig(&S[lc.B-1]), ID: 2},
						{Signature: mkOrderSig(&S[lc.A-1]), ID: 3},
					}}
					a := snap.Aggregate(stack.ExactFlags)
					pa, pb := bucketPos(a, 3), bucketPos(a, 2)
					cs := map[string]interface{}{"a": lc.A, "b": lc.B, "sig_a": S[lc.A-1], "sig_b": S[lc.B-1]}
					switch {
					case len(a.Buckets) != 3 || pa == pb:
						res.infra("signatures %d and %d of S were merged into one bucket: the universe is not separating", lc.A, lc.B)
					case bucketPos(a, 1) != 0:
						res.violation(Finding{Property: "C13", Aspect: "first", What: "the bucket of the first goroutine is not first", Case: cs})
					case (pa < pb) != lc.Less:
						res.violation(Finding{Property: "C13", Aspect: "pair", What: fmt.Sprintf("SigLess(S[%d], S[%d]) = %v in the specification, but the real order puts a %s b", lc.A, lc.B, lc.Less, map[bool]string{true: "before", false: "after"}[pa < pb]),
							Case: cs, Expected: lc.Less, Observed: pa < pb})
					}
					var sample interface{}
					if (lc.A*131+lc.B)%1999 == 0 {
						sample = map[string]interface{}{"a": lc.A, "b": lc.B, "less": lc.Less}
					}
					res.eval(fmt.Sprint(lc.A, lc.B), true, sample)
				}
			}()
		}
		for _, lc := range cases {
			ch <- lc
		}
		close(ch)
		wg.Wait()
		// random snapshots: the order must be sorted under the specification's relation
		rng := rand.New(rand.NewSource(*c.seed))
		n := 3000
		if *c.tier == "thorough" {
			n = 30000
		}
		for t := 0; t < n; t++ {
			k := 3 + rng.Intn(6)
			idx := rng.Perm(len(S))[:k]
			snap := &stack.Snapshot{Goroutines: []*stack.Goroutine{{Signature: mkOrderSig(&firstSig), ID: 1, First: true}}}
			for j, x := range idx {
				snap.Goroutines = append(snap.Goroutines, &stack.Goroutine{Signature: mkOrderSig(&S[x]), ID: 2 + j})
			}
			a := snap.Aggregate(stack.ExactFlags)
			if len(a.Buckets) != k+1 {
				continue
			}
			var ord []int
			for _, b := range a.Buckets[1:] {
				ord = append(ord, idx[b.IDs[0]-2]+1)
			}
			for i := 0; i+1 < len(ord); i++ {
				if less[[2]int{ord[i+1], ord[i]}] {
					res.violation(Finding{Property: "C13", Aspect: "sorted", What: fmt.Sprintf("buckets %v: S[%d] is shown before S[%d] although the latter is strictly less", ord, ord[i], ord[i+1]), Case: map[string]interface{}{"order": ord}})
					break
				}
			}
			res.eval(fmt.Sprint("rand", idx), true, nil)
		}
		return res.write(*c.out)
	})
}
