package main

import (
	"encoding/json"
	"fmt"
	"io"
	"math/rand"
	"runtime"
	"strings"
	"sync"

	"github.com/maruel/panicparse/v2/stack"
)

// C13: the pairwise relation behind the bucket order, observed through
// Aggregate on directly constructed goroutines with known Location/IsPkgMain,
// compared with the relation spec/MC_Less.tla computes on the same universe.

type lessCase struct {
	A    int  `json:"a"`
	B    int  `json:"b"`
	Less bool `json:"less"`
}

func mkOrderSig(s *absSig) stack.Signature {
	out := mkSig(s)
	// Location / IsPkgMain are what the ordering looks at: make them what the universe says.
	for i := range out.Stack.Calls {
		out.Stack.Calls[i].Location = locOf[s.Fr[i].Loc]
		out.Stack.Calls[i].Func.IsPkgMain = s.Fr[i].Main
	}
	return out
}

var firstSig = absSig{State: "s3", Fr: []absFrame{{Fn: "zz", File: "z/z.go", Dirsrc: "z/z.go", Line: 99, Loc: "Unknown"}}}

func bucketPos(a *stack.Aggregated, id int) int {
	for i, b := range a.Buckets {
		for _, x := range b.IDs {
			if x == id {
				return i
			}
		}
	}
	return -1
}

func init() {
	register("order", "C13: pairwise bucket order observed through Aggregate vs MC_Less's relation", func(args []string) error {
		c := newCommon("order")
		_ = c.fs.Parse(args)
		res := newResult("one case = an ordered pair (a, b) of signatures of MC_Less's universe S with SigLess(a, b) as the specification computes it; observed on the real code by aggregating [first, b (id 2), a (id 3)]: a's bucket comes before b's iff a is strictly less (a tie is broken towards the smaller id); plus random snapshots of 3..8 signatures of S whose bucket order must be sorted under the relation; non-trivial = a # b")
		var S []absSig
		var cases []lessCase
		err := scanTLC(*c.in, func(tag string, js []byte) error {
			switch tag {
			case "UNIV":
				var u struct {
					S []absSig `json:"S"`
				}
				if err := json.Unmarshal(js, &u); err != nil {
					return err
				}
				S = u.S
			case "CASE":
				var lc lessCase
				if err := json.Unmarshal(js, &lc); err != nil {
					return err
				}
				cases = append(cases, lc)
			}
			return nil
		})
		if err != nil {
			return err
		}
		if len(S) == 0 || len(cases) == 0 {
			res.infra("no universe / cases")
			return res.write(*c.out)
		}
		for i := range S {
			normSig(&S[i])
		}
		less := map[[2]int]bool{}
		for _, lc := range cases {
			less[[2]int{lc.A, lc.B}] = lc.Less
		}
		var omu sync.Mutex
		obs := map[[2]int]bool{} // the relation observed on the real code
		var wg sync.WaitGroup
		ch := make(chan lessCase, 256)
		for w := 0; w < runtime.NumCPU(); w++ {
			wg.Add(1)
			go func() {
				defer wg.Done()
				for lc := range ch {
					func() {
						defer func() {
							if r := recover(); r != nil {
								res.violation(Finding{Property: "C13", Aspect: "panic", What: fmt.Sprintf("ordering S[%d] against S[%d] panicked: the comparison is not defined for this pair: %v", lc.A, lc.B, r),
									Case: map[string]interface{}{"a": lc.A, "b": lc.B, "sig_a": S[lc.A-1], "sig_b": S[lc.B-1]}})
							}
						}()
						orderPair(res, lc, S, &omu, obs)
					}()
				}
			}()
		}
		for _, lc := range cases {
			ch <- lc
		}
		close(ch)
		wg.Wait()
		if res.saturated("C13") || res.ViolCount["C13"] > 0 && len(obs) == 0 {
			return res.write(*c.out)
		}
		orderParsed(res)
		orderTies(res, "C13")
		return orderRest(res, c, S, less, obs)
	})
}

// orderTies: two classes that the relevance comparison cannot tell apart (the same frames, other
// argument values) with every distribution of four goroutines over them: whatever breaks the tie,
// it must be a total, repeatable choice - the same order on every aggregation.
func orderTies(res *Result, prop string) {
	for mask := 1; mask < 15; mask++ {
		var sb strings.Builder
		sb.WriteString("goroutine 1 [running]:\nmain.main()\n\t/w/app/main.go:9 +0x1\n")
		for k := 0; k < 4; k++ {
			fmt.Fprintf(&sb, "\ngoroutine %d [chan receive]:\nmain.worker(0x%d)\n\t/w/app/worker.go:12 +0x1\ncreated by main.main\n\t/w/app/main.go:7 +0x1\n", k+2, 1+(mask>>uint(k))&1)
		}
		text := sb.String()
		func() {
			defer func() {
				if r := recover(); r != nil {
					res.violation(Finding{Property: prop, Aspect: "panic", What: fmt.Sprintf("aggregating tying buckets panicked: %v", r), Case: text})
				}
			}()
			snap, _, _ := stack.ScanSnapshot(strings.NewReader(text), io.Discard, &stack.Opts{})
			if snap == nil || len(snap.Goroutines) != 5 {
				return
			}
			first := ""
			for rep := 0; rep < 80; rep++ {
				a := snap.Aggregate(stack.ExactFlags)
				o := ""
				for _, b := range a.Buckets {
					o += fmt.Sprint(b.IDs)
				}
				if first == "" {
					first = o
				} else if o != first {
					res.violation(Finding{Property: prop, Aspect: "ties", What: fmt.Sprintf("two buckets that rank equally (same frames, other argument values; %d goroutines) are shown as %s and as %s on repeated aggregations of one snapshot: the order is not a function of the snapshot", 5, first, o), Case: text, Input: []byte(text)})
					return
				}
			}
			res.count("tie_distributions_checked", 1)
		}()
	}
}

// orderParsed observes the contract on parsed dumps: which frames count as code of package main is
// decided by the symbol's package being exactly "main", not by a library whose last path element,
// or whose name, merely contains it.  The goroutine with real main frames is printed last and has
// the larger id, so nothing but relevance puts it in front.
func orderParsed(res *Result) {
	libs := []string{"example.com/lib/main", "example.com/tool/main", "github.com/x/main", "mainframe", "domain", "example.com/main/sub", "main/sub", "x/main"}
	for _, lib := range libs {
		text := "goroutine 1 [running]:\nruntime.throw(...)\n\t/goroot/src/runtime/panic.go:10 +0x1\n\n" +
			"goroutine 7 [chan receive]:\n" + lib + ".Run(0x1)\n\t/w/lib/run.go:11 +0x1\n" + lib + ".Serve(0x1)\n\t/w/lib/run.go:21 +0x1\n\n" +
			"goroutine 8 [chan receive]:\nmain.work(0x1)\n\t/w/app/main.go:12 +0x1\nmain.main()\n\t/w/app/main.go:22 +0x1\n\n"
		for _, sim := range []stack.Similarity{stack.ExactFlags, stack.ExactLines, stack.AnyPointer, stack.AnyValue} {
			func() {
				defer func() {
					if r := recover(); r != nil {
						res.violation(Finding{Property: "C13", Aspect: "panic", What: fmt.Sprintf("aggregating a parsed dump with library package %q panicked: %v", lib, r), Case: text})
					}
				}()
				snap, _, err := stack.ScanSnapshot(strings.NewReader(text), io.Discard, &stack.Opts{})
				if snap == nil || len(snap.Goroutines) != 3 {
					res.drift(Finding{Property: "C13", Aspect: "parsed", What: fmt.Sprintf("the dump with library package %q does not parse into three goroutines (%v)", lib, err), Case: text})
					return
				}
				a := snap.Aggregate(sim)
				p1, p7, p8 := bucketPos(a, 1), bucketPos(a, 7), bucketPos(a, 8)
				if len(a.Buckets) != 3 || p1 != 0 || p8 > p7 {
					res.violation(Finding{Property: "C13", Aspect: "parsed-main", What: fmt.Sprintf("buckets of goroutines 1 (first), 8 (two frames of package main) and 7 (two frames of library package %q) are shown at positions %d, %d, %d: the bucket with code of package main must come first after the first goroutine's", lib, p1, p8, p7), Case: text})
				}
				res.count("parsed_main_checks", 1)
			}()
		}
	}
}

func orderPair(res *Result, lc lessCase, S []absSig, omu *sync.Mutex, obs map[[2]int]bool) {
	{
		{
			{
				{
					if lc.A == lc.B {
						res.eval(fmt.Sprint(lc.A, lc.B), false, nil)
						return
					}
					snap := &stack.Snapshot{Goroutines: []*stack.Goroutine{
						{Signature: mkOrderSig(&firstSig), ID: 1, First: true},
						{Signature: mkOrderSig(&S[lc.B-1]), ID: 2},
						{Signature: mkOrderSig(&S[lc.A-1]), ID: 3},
					}}
					a := snap.Aggregate(stack.ExactFlags)
					pa, pb := bucketPos(a, 3), bucketPos(a, 2)
					cs := map[string]interface{}{"a": lc.A, "b": lc.B, "sig_a": S[lc.A-1], "sig_b": S[lc.B-1]}
					switch {
					case len(a.Buckets) != 3 || pa == pb:
						res.infra("signatures %d and %d of S were merged into one bucket: the universe is not separating", lc.A, lc.B)
					case bucketPos(a, 1) != 0:
						res.violation(Finding{Property: "C13", Aspect: "first", What: "the bucket of the first goroutine is not first", Case: cs})
					default:
						omu.Lock()
						obs[[2]int{lc.A, lc.B}] = pa < pb
						omu.Unlock()
					}
					// relevance decides before the number of members does: with more goroutines on either side
					// the strictly less signature still comes first
					if lc.Less {
						for _, dup := range []int{lc.A, lc.B} {
							s2 := &stack.Snapshot{Goroutines: []*stack.Goroutine{
								{Signature: mkOrderSig(&firstSig), ID: 1, First: true},
								{Signature: mkOrderSig(&S[lc.B-1]), ID: 2},
								{Signature: mkOrderSig(&S[lc.A-1]), ID: 3},
								{Signature: mkOrderSig(&S[dup-1]), ID: 4},
								{Signature: mkOrderSig(&S[dup-1]), ID: 5},
							}}
							a2 := s2.Aggregate(stack.ExactFlags)
							if len(a2.Buckets) == 3 && bucketPos(a2, 3) > bucketPos(a2, 2) {
								res.violation(Finding{Property: "C13", Aspect: "counts", What: fmt.Sprintf("S[%d] is strictly less than S[%d], but with three goroutines in the bucket of S[%d] it is shown after it: the number of members overrides relevance", lc.A, lc.B, dup), Case: cs})
								break
							}
						}
					}
					var sample interface{}
					if (lc.A*131+lc.B)%1999 == 0 {
						sample = map[string]interface{}{"a": lc.A, "b": lc.B, "less": lc.Less}
					}
					res.eval(fmt.Sprint(lc.A, lc.B), true, sample)
				}
			}
		}
	}
}

func orderRest(res *Result, c *common, S []absSig, less map[[2]int]bool, obs map[[2]int]bool) error {
	{
		// The observed relation must be a strict weak order that honours the relevance contract.
		// If it equals the specification's relation this follows from TLC's result on MC_Less; if
		// it differs, it is judged on its own: a different but valid order is model drift, not a
		// violation.
		differs := 0
		var firstDiff [2]int
		for k, v := range obs {
			if less[k] != v {
				if differs == 0 || k[0]*1000+k[1] < firstDiff[0]*1000+firstDiff[1] {
					firstDiff = k
				}
				differs++
			}
		}
		rel := less
		if differs > 0 {
			rel = obs
			n := len(S)
			L := func(a, b int) bool { return a != b && obs[[2]int{a, b}] }
			inc := func(a, b int) bool { return !L(a, b) && !L(b, a) }
			allStd := func(x *absSig) bool {
				if len(x.Fr) == 0 {
					return false
				}
				for _, f := range x.Fr {
					if f.Loc != "Stdlib" || f.Main {
						return false
					}
				}
				return true
			}
			hasUser := func(x *absSig) bool {
				for _, f := range x.Fr {
					if f.Main || f.Loc == "GoMod" || f.Loc == "GOPATH" || f.Loc == "GoPkg" {
						return true
					}
				}
				return false
			}
			nmain := func(x *absSig) int {
				k := 0
				for _, f := range x.Fr {
					if f.Main {
						k++
					}
				}
				return k
			}
			bad := ""
		search:
			for a := 1; a <= n; a++ {
				for b := 1; b <= n; b++ {
					if a == b {
						continue
					}
					if L(a, b) && L(b, a) {
						bad = fmt.Sprintf("not asymmetric: S[%d] and S[%d] are each shown before the other", a, b)
						break search
					}
					if allStd(&S[a-1]) && hasUser(&S[b-1]) && !L(b, a) {
						bad = fmt.Sprintf("a bucket whose frames are all standard library (S[%d]) is not after one with user code (S[%d])", a, b)
						break search
					}
					if nmain(&S[a-1]) > nmain(&S[b-1]) && !L(a, b) {
						bad = fmt.Sprintf("S[%d] has more package-main frames than S[%d] but is not shown first", a, b)
						break search
					}
					for c := 1; c <= n; c++ {
						if c == a || c == b {
							continue
						}
						if L(a, b) && L(b, c) && !L(a, c) {
							bad = fmt.Sprintf("not transitive: S[%d] < S[%d] < S[%d] but not S[%d] < S[%d]", a, b, c, a, c)
							break search
						}
						if inc(a, b) && inc(b, c) && !inc(a, c) {
							bad = fmt.Sprintf("incomparability is not transitive on S[%d], S[%d], S[%d]", a, b, c)
							break search
						}
					}
				}
			}
			f := Finding{Property: "C13", Aspect: "pair", What: fmt.Sprintf("the observed order relation differs from SigLess on %d ordered pairs, first (S[%d], S[%d])", differs, firstDiff[0], firstDiff[1]),
				Case: map[string]interface{}{"a": firstDiff[0], "b": firstDiff[1], "sig_a": S[firstDiff[0]-1], "sig_b": S[firstDiff[1]-1]}, Expected: less[firstDiff], Observed: obs[firstDiff]}
			if bad != "" {
				f.What += "; and the observed relation is not a valid order: " + bad
				res.violation(f)
			} else {
				f.What += "; the observed relation is still a strict weak order that honours the contract on S"
				res.drift(f)
			}
		}
		less = rel
		// random snapshots: the order must be sorted under the (observed or specified) relation
		rng := rand.New(rand.NewSource(*c.seed))
		n := 3000
		if *c.tier == "thorough" {
			n = 30000
		}
		for t := 0; t < n; t++ {
			k := 3 + rng.Intn(6)
			idx := rng.Perm(len(S))[:k]
			snap := &stack.Snapshot{Goroutines: []*stack.Goroutine{{Signature: mkOrderSig(&firstSig), ID: 1, First: true}}}
			for j, x := range idx {
				snap.Goroutines = append(snap.Goroutines, &stack.Goroutine{Signature: mkOrderSig(&S[x]), ID: 2 + j})
			}
			a := safeAggregate(snap)
			if a == nil {
				res.violation(Finding{Property: "C13", Aspect: "panic", What: fmt.Sprintf("aggregating signatures %v of S panicked in the ordering", idx)})
				break
			}
			if len(a.Buckets) != k+1 {
				continue
			}
			var ord []int
			for _, b := range a.Buckets[1:] {
				ord = append(ord, idx[b.IDs[0]-2]+1)
			}
			for i := 0; i+1 < len(ord); i++ {
				if less[[2]int{ord[i+1], ord[i]}] {
					res.violation(Finding{Property: "C13", Aspect: "sorted", What: fmt.Sprintf("buckets %v: S[%d] is shown before S[%d] although the latter is strictly less", ord, ord[i], ord[i+1]), Case: map[string]interface{}{"order": ord}})
					break
				}
			}
			res.eval(fmt.Sprint("rand", idx), true, nil)
		}
		return res.write(*c.out)
	}
}

func safeAggregate(s *stack.Snapshot) (a *stack.Aggregated) {
	defer func() {
		if recover() != nil {
			a = nil
		}
	}()
	return s.Aggregate(stack.ExactFlags)
}
