package main

import (
	"bytes"
	"encoding/json"
	"fmt"
	"math/rand"
	"reflect"
	"runtime"
	"sync"

	"github.com/maruel/panicparse/v2/stack"
)

// C10: every byte offset of printed dumps / race reports as the cut point, the
// cut signalled as EOF or as a reader failure, separately or together with the
// last data. Compared with the uncut run of the same bytes. The goroutine a
// line belongs to comes from the printer model's structure (the abstract lines
// of the TLC case), so "entirely before the cut" is max(lines of g) <= cut.

// goroutineEnds returns, per goroutine of the first call's snapshot, the byte
// offset at which its last line ends.
func goroutineEnds(pc *printCase, lines [][]byte) ([]int, []int) {
	owner := make([]int, len(lines))
	for i := range owner {
		owner[i] = -1
	}
	ends := make([]int, len(lines))
	off := 0
	for i, l := range lines {
		off += len(l)
		ends[i] = off
	}
	var out []int
	if pc.Mode == "dump" {
		cur := -1
		for i := 0; i < pc.NDump; i++ {
			switch pc.Lines[i].Body {
			case "hdr":
				out = append(out, ends[i])
				cur = len(out) - 1
				owner[i] = cur
			case "blank":
			default:
				if cur >= 0 {
					out[cur] = ends[i]
					owner[i] = cur
				}
			}
		}
		return out, owner
	}
	// race: operations in order; creation sections attach by id to the first
	// operation with that id
	ids := []int{}
	cur := -1
	sec := false
	for i := 0; i < pc.NDump; i++ {
		l := &pc.Lines[i]
		switch l.Body {
		case "rop", "rprev":
			out = append(out, ends[i])
			ids = append(ids, l.P.ID)
			cur = len(out) - 1
			owner[i] = cur
			sec = false
		case "rgo":
			cur = -1
			for j, id := range ids {
				if id == l.P.ID {
					cur = j
					break
				}
			}
			sec = true
			owner[i] = cur
			if cur >= 0 && ends[i] > out[cur] {
				out[cur] = ends[i]
			}
		case "func", "file":
			owner[i] = cur
			if cur >= 0 && ends[i] > out[cur] {
				out[cur] = ends[i]
			}
		}
	}
	_ = sec
	return out, owner
}

func checkCutCase(res *Result, pc *printCase, rng *rand.Rand, idx int, stride int) int {
	if res.saturated("C10") || pc.Pre != 0 {
		return 0 // (the line-to-goroutine structure below assumes the report starts at line 1)
	}
	p := &printer{lx: newLexicon(rng, nil), created: map[string]string{}}
	lines := make([][]byte, len(pc.Lines))
	var data []byte
	for i := range pc.Lines {
		lines[i] = p.render(i, &pc.Lines[i], false)
		data = append(data, lines[i]...)
	}
	// a little pass-through text in front, so that the forwarded-prefix clause is exercised
	pre := []byte("starting\npanic: boom\n\n")
	data = append(append([]byte{}, pre...), data...)
	gEnds, owner := goroutineEnds(pc, lines)
	for i := range gEnds {
		gEnds[i] += len(pre)
	}
	// start offset of every line, and the offset at which the scanner has seen the line that
	// terminates the dump (the first line after it; for a race report its closing separator)
	starts := make([]int, len(lines)+1)
	starts[0] = len(pre)
	for i, l := range lines {
		starts[i+1] = starts[i] + len(l)
	}
	term := len(data) + 1
	if pc.Mode == "race" {
		term = starts[pc.NDump]
	} else if pc.NDump < len(lines) {
		term = starts[pc.NDump+1]
	}
	opts := &stack.Opts{}
	full := runStream(newSource(data, nil, 0, nil, false), opts, len(lines)+4)
	var fullFwd []byte
	for _, o := range full {
		fullFwd = append(fullFwd, o.Fwd...)
	}
	var fullGs []*stack.Goroutine
	if len(full) > 0 && full[0].Snap != nil {
		fullGs = full[0].Snap.Goroutines
	}
	if len(fullGs) != len(gEnds) {
		// the uncut run itself is not what the printer model says: C01/C08 report that
		res.count("cut_skipped_uncut_mismatch", 1)
		return 0
	}
	runs := 0
	mk := func(k int, mode, aspect, what string, exp, got interface{}) Finding {
		return Finding{Property: "C10", Aspect: aspect, What: fmt.Sprintf("cut case %d at byte %d/%d mode %s: %s", idx, k, len(data), mode, what),
			Case: map[string]interface{}{"mode": pc.Mode, "cut": k, "signal": mode, "lines": pc.Lines}, Input: data[:k], Expected: exp, Observed: got}
	}
	for k := 0; k <= len(data); k += stride {
		for _, mode := range []string{"eof", "eof+data", "err", "err+data"} {
			var final error
			if mode[:3] == "err" {
				final = errInjected
				if (k/stride)%3 == 2 {
					final = errInjectedEOF // a failure that wraps io.EOF is still a failure
				}
			}
			withData := len(mode) > 3
			src := newSource(data[:k], nil, 0, final, withData)
			obs := runStream(src, opts, len(lines)+4)
			runs++
			bad := false
			for _, o := range obs {
				if o.Panic != "" {
					res.violation(mk(k, mode, "panic", firstLine(o.Panic), nil, o.Panic))
					f := mk(k, mode, "panic", firstLine(o.Panic), nil, o.Panic)
					f.Property = "C03"
					res.violation(f)
					bad = true
				}
			}
			if src.hung {
				res.violation(mk(k, mode, "hang", "read budget exhausted", nil, nil))
				bad = true
			}
			if bad || len(obs) == 0 {
				continue
			}
			last := obs[len(obs)-1]
			// the error
			if final != nil {
				// The unterminated fragment in front of the cut reaches the scanner together with the
				// failure (a line without a newline is only handed over when the source ends), so the
				// call that scans it holds the reader's error and must report exactly that, whatever
				// the scanner thinks of the fragment. (A failure that arrives together with complete
				// lines is still pending while those are scanned: an earlier return is legitimate.)
				nl := bytes.LastIndexByte(data[:k], '\n') + 1
				frag := data[nl:k]
				bad := -1
				for j := range obs {
					if len(frag) > 0 && obs[j].ErrClass == "parse" && bytes.Equal(obs[j].Suffix, frag) && src.finalAt >= 0 && src.finalAt <= j {
						bad = j
						break
					}
				}
				if bad >= 0 {
					res.violation(mk(k, mode, "error", fmt.Sprintf("call %d scanned the last, unterminated fragment, which arrives together with the reader failure, but reported %v instead of that failure", bad+1, obs[bad].Err), "errInjected", fmt.Sprint(obs[bad].Err)))
				} else if last.Err != final {
					res.violation(mk(k, mode, "error", fmt.Sprintf("the reader failure is not reported as that error: got %v", last.Err), "errInjected", fmt.Sprint(last.Err)))
				}
			} else if last.ErrClass != "eof" && last.ErrClass != "parse" {
				res.violation(mk(k, mode, "error", fmt.Sprintf("plain end of stream reported as %v", last.Err), "eof|parse", fmt.Sprint(last.Err)))
			}
			// goroutines entirely before the cut
			var gs []*stack.Goroutine
			for _, o := range obs {
				if o.Snap != nil {
					gs = o.Snap.Goroutines
					break
				}
			}
			// The goroutine being read at the cut may be partial: when the cut leaves an
			// unterminated fragment and the scanner has not yet seen the line that ends the dump,
			// the fragment is scanned as a continuation of the line group in front of it.
			exempt := -1
			if k > 0 && data[k-1] != '\n' && k < term {
				for i := 0; i < pc.NDump && starts[i] < k; i++ {
					exempt = owner[i]
				}
			}
			complete := 0
			for i, e := range gEnds {
				if e <= k && i != exempt {
					complete++
					if i >= len(gs) || !reflect.DeepEqual(gs[i], fullGs[i]) {
						var got interface{}
						if i < len(gs) {
							got = realSnap(&stack.Snapshot{Goroutines: gs[i : i+1]}, nil)
						}
						res.violation(mk(k, mode, "complete-goroutine", fmt.Sprintf("goroutine #%d lies entirely before the cut but is missing or differs", i+1),
							realSnap(&stack.Snapshot{Goroutines: fullGs[i : i+1]}, nil), got))
						break
					}
				}
			}
			// a race report's goroutines come into existence in operation order, a dump's in
			// printed order: anything beyond the complete ones must exist in the uncut run
			// too (possibly partial), and nothing may be invented
			if len(gs) > len(fullGs) {
				res.violation(mk(k, mode, "invented", fmt.Sprintf("%d goroutines from a cut stream, %d from the uncut one", len(gs), len(fullGs)), len(fullGs), len(gs)))
			}
			// forwarded bytes
			var fwd []byte
			for _, o := range obs {
				fwd = append(fwd, o.Fwd...)
			}
			if !bytes.HasPrefix(fullFwd, fwd) {
				// K2: the only excess is the unterminated fragment the cut produced
				nl := bytes.LastIndexByte(data[:k], '\n') + 1
				frag := data[nl:k]
				if len(frag) > 0 && bytes.HasSuffix(fwd, frag) && bytes.HasPrefix(fullFwd, fwd[:len(fwd)-len(frag)]) {
					res.known(Finding{Property: "C10", Known: "K2", Aspect: "prefix", What: fmt.Sprintf("cut case %d at byte %d: unterminated fragment %q forwarded", idx, k, string(frag)), Input: data[:k]})
				} else {
					res.violation(mk(k, mode, "prefix", "the bytes forwarded are not a prefix of what the uncut stream forwards", short(fullFwd), short(fwd)))
				}
			}
		}
	}
	return runs
}

func init() {
	register("cut", "C10: every byte offset of printed dumps / race reports as the cut point x 4 ways of signalling it", func(args []string) error {
		c := newCommon("cut")
		stride := c.fs.Int("stride", 1, "cut every n-th byte")
		_ = c.fs.Parse(args)
		res := newResult("one case = (printed dump or race report from MC_Print with seeded lexical draw, cut offset, signal in {EOF after data, EOF with data, error after data, error with data}); every byte offset is used; compared with the uncut run; non-trivial = distinct (report shape, cut offset, signal)")
		var cases []printCase
		err := scanTLC(*c.in, func(tag string, js []byte) error {
			if tag == "CASE" {
				var pc printCase
				if err := json.Unmarshal(js, &pc); err != nil {
					return err
				}
				pc.raw = string(js)
				cases = append(cases, pc)
			}
			return nil
		})
		if err != nil {
			return err
		}
		sortByKey(len(cases), func(i int) string { return cases[i].raw }, func(i, j int) { cases[i], cases[j] = cases[j], cases[i] })
		if len(cases) == 0 {
			res.infra("no cases")
			return res.write(*c.out)
		}
		rng := rand.New(rand.NewSource(*c.seed))
		rng.Shuffle(len(cases), func(i, j int) { cases[i], cases[j] = cases[j], cases[i] })
		if *c.limit > 0 && len(cases) > *c.limit {
			// at least two thirds of the sample: dumps / reports without a predicted parse error
			clean := cleanPrints(cases)
			isClean := map[string]bool{}
			for _, p := range clean {
				isClean[p.raw] = true
			}
			var faulty []printCase
			for _, p := range cases {
				if !isClean[p.raw] {
					faulty = append(faulty, p)
				}
			}
			if len(faulty) > *c.limit/3 {
				faulty = faulty[:*c.limit/3]
			}
			if len(clean) > *c.limit-len(faulty) {
				clean = clean[:*c.limit-len(faulty)]
			}
			cases = append(clean, faulty...)
		}
		var wg sync.WaitGroup
		ch := make(chan int, 64)
		for w := 0; w < runtime.NumCPU(); w++ {
			wg.Add(1)
			go func() {
				defer wg.Done()
				for i := range ch {
					r := rand.New(rand.NewSource(*c.seed*7919 + int64(i)))
					n := checkCutCase(res, &cases[i], r, i, *stride)
					res.mu.Lock()
					res.Evaluations += n
					res.Nontrivial += n
					if len(res.Samples) < 3 && n > 0 {
						res.Samples = append(res.Samples, map[string]interface{}{"mode": cases[i].Mode, "lines": len(cases[i].Lines), "cuts_x_signals": n})
					}
					res.mu.Unlock()
				}
			}()
		}
		for i := range cases {
			ch <- i
		}
		close(ch)
		wg.Wait()
		return res.write(*c.out)
	})
}
