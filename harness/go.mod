module verif/harness

go 1.23.0

require github.com/maruel/panicparse/v2 v2.0.0

replace github.com/maruel/panicparse/v2 => /repo
