"""Shared machinery of bin/vcheck: scratch directories, building the harness from
/repo's working tree, running TLC, running the harness, writing evidence and
deciding exit codes.

Exit codes: 0 = everything explored conformed (possibly with KNOWN-FINDING lines),
1 = at least one unlisted violation (one VIOLATION line each), 2 = infrastructure
failure (build error, TLC error, timeout, vacuous run): never a verdict.
"""
import atexit, base64, hashlib, json, os, re, shutil, subprocess, sys, tempfile, time

VERIF = os.path.dirname(os.path.dirname(os.path.abspath(__file__)))
REPO = os.environ.get("VERIF_REPO", "/repo")
JAR = "/opt/veriftools/tla/tla2tools.jar:/opt/veriftools/tla/CommunityModules-deps.jar"
NCPU = os.cpu_count() or 4

GOENV = dict(os.environ, GOFLAGS="-mod=mod", GOPROXY="off", GOSUMDB="off", GOTOOLCHAIN="local")


class Infra(Exception):
    pass


_scratch = None


def scratch():
    global _scratch
    if _scratch is None:
        base = os.environ.get("VERIF_SCRATCH") or tempfile.gettempdir()
        _scratch = tempfile.mkdtemp(prefix="vcheck-", dir=base)
        atexit.register(lambda: shutil.rmtree(_scratch, ignore_errors=True))
        # everything the check starts (go build, the harness, pp, go test) keeps its temporary
        # files inside the scratch directory, which is removed on exit
        t = os.path.join(_scratch, "tmp")
        os.makedirs(t)
        os.environ["TMPDIR"] = t
        GOENV["TMPDIR"] = t
    return _scratch


def sh(cmd, cwd=None, env=None, timeout=None, check=True, stdout=None):
    p = subprocess.run(cmd, cwd=cwd, env=env, timeout=timeout, stdout=stdout or subprocess.PIPE,
                       stderr=subprocess.STDOUT, text=True)
    if check and p.returncode != 0:
        raise Infra("command failed (%d): %s\n%s" % (p.returncode, " ".join(cmd), (p.stdout or "")[-3000:]))
    return p


def build_harness():
    """Builds the harness against /repo's current working tree."""
    out = os.path.join(scratch(), "vh")
    if os.path.exists(out):
        return out
    hdir = os.path.join(scratch(), "harness")
    shutil.copytree(os.path.join(VERIF, "harness"), hdir, ignore=shutil.ignore_patterns("go.sum"))
    shutil.copy(os.path.join(REPO, "go.sum"), os.path.join(hdir, "go.sum"))
    if REPO != "/repo":
        gm = open(os.path.join(hdir, "go.mod")).read().replace("=> /repo", "=> " + REPO)
        open(os.path.join(hdir, "go.mod"), "w").write(gm)
    sh(["go", "build", "-o", out, "./cmd/vh"], cwd=hdir, env=GOENV, timeout=600)
    return out


def build_harness_race():
    out = os.path.join(scratch(), "vh-race")
    if os.path.exists(out):
        return out
    build_harness()
    hdir = os.path.join(scratch(), "harness")
    sh(["go", "build", "-race", "-o", out, "./cmd/vh"], cwd=hdir, env=GOENV, timeout=900)
    return out


def build_pp():
    out = os.path.join(scratch(), "pp")
    if os.path.exists(out):
        return out
    sh(["go", "build", "-o", out, "./cmd/pp"], cwd=REPO, env=GOENV, timeout=600)
    return out


def spec_dir():
    d = os.path.join(scratch(), "spec")
    if not os.path.exists(d):
        shutil.copytree(os.path.join(VERIF, "spec"), d)
    return d


_tlc_seq = [0]


def run_tlc(module, cfg, consts=None, workers=None, timeout=900, extra=None, simulate=None, depth=None,
            seed=None, heap=None, deque=False, allow_violation=False, extra_files=None):
    """Runs TLC on spec/<module>.tla with spec/<cfg>, optionally overriding CONSTANTS.
    Returns dict(out=path, generated, distinct, depth, ok, violated, wall_s)."""
    d = spec_dir()
    _tlc_seq[0] += 1
    tag = "%s_%d" % (cfg.replace(".cfg", ""), _tlc_seq[0])
    cfgtext = open(os.path.join(d, cfg)).read()
    for k, v in (consts or {}).items():
        cfgtext, n = re.subn(r"(?m)^(\s*%s\s*=\s*).*$" % re.escape(k), lambda m: m.group(1) + str(v), cfgtext)
        if n == 0:
            raise Infra("constant %s not in %s" % (k, cfg))
    cfgpath = os.path.join(d, tag + ".cfg")
    open(cfgpath, "w").write(cfgtext)
    for src, name in (extra_files or []):
        shutil.copy(src, os.path.join(d, name))
    meta = os.path.join(scratch(), "meta_" + tag)
    out = os.path.join(scratch(), tag + ".out")
    jtmp = os.path.join(scratch(), "jtmp")
    os.makedirs(jtmp, exist_ok=True)
    cmd = ["java", "-XX:+UseParallelGC", "-Xss512m", "-Djava.io.tmpdir=" + jtmp]  # TLC leaves a tlc-<n> directory per run
    if heap:
        cmd.append("-Xmx" + heap)
    if deque:
        cmd.append("-Dtlc2.tool.queue.IStateQueue=StateDeque")
    cmd += ["-cp", JAR, "tlc2.TLC", "-config", cfgpath, "-metadir", meta, "-workers", str(workers or NCPU)]
    if simulate:
        cmd += ["-simulate", simulate]
        if depth:
            cmd += ["-depth", str(depth)]
    if seed is not None:
        cmd += ["-seed", str(seed)]
    cmd += list(extra or [])
    cmd.append(os.path.join(d, module + ".tla"))
    t0 = time.time()
    with open(out, "w") as f:
        try:
            p = subprocess.run(cmd, cwd=d, stdout=f, stderr=subprocess.STDOUT, timeout=timeout)
            rc = p.returncode
        except subprocess.TimeoutExpired:
            shutil.rmtree(meta, ignore_errors=True)
            if simulate:
                rc = -9  # simulation is open-ended: a timeout is how it stops
            else:
                raise Infra("TLC timed out after %ds on %s/%s" % (timeout, module, cfg))
    shutil.rmtree(meta, ignore_errors=True)
    r = dict(out=out, generated=0, distinct=0, depth=0, ok=False, violated=None, wall_s=round(time.time() - t0, 2), rc=rc)
    tail = []
    with open(out, errors="replace") as f:
        for line in f:
            if line.startswith('"'):
                continue
            tail.append(line)
            if len(tail) > 400:
                tail.pop(0)
            m = re.match(r"(\d+) states generated, (\d+) distinct states found", line)
            if m:
                r["generated"], r["distinct"] = int(m.group(1)), int(m.group(2))
            m = re.match(r"The depth of the complete state graph search is (\d+)", line)
            if m:
                r["depth"] = int(m.group(1))
            m = re.match(r"Error: (Invariant|Action property|Temporal properties|Postcondition|Assumption)(.*)", line)
            if m and r["violated"] is None:
                r["violated"] = line.strip()
            if "Model checking completed. No error has been found" in line:
                r["ok"] = True
            m = re.match(r"Progress: (\d+) states checked, (\d+) traces generated", line)
            if m and simulate:
                r["generated"], r["distinct"] = int(m.group(1)), int(m.group(1))
                r["traces"] = int(m.group(2))
            m = re.match(r"The number of states generated: (\d+)", line)
            if m and simulate:
                r["generated"] = r["distinct"] = int(m.group(1))
    r["tail"] = "".join(tail[-60:])
    if simulate and rc in (0, -9) and r["violated"] is None:
        r["ok"] = True
    if not r["ok"] and not (allow_violation and r["violated"]):
        raise Infra("TLC did not complete cleanly on %s/%s (rc=%s): %s\n%s" % (module, cfg, rc, r["violated"], r["tail"][-2500:]))
    return r


def _killpg(pid):
    import signal
    try:
        os.killpg(pid, signal.SIGKILL)
    except (ProcessLookupError, PermissionError):
        pass


def run_tlapm(module, timeout=1500):
    """Checks the TLAPS proofs of spec/<module>.tla from scratch (no fingerprint cache).  A proof that
    does not go through says something about the specification, never about the code: Infra.
    The back ends work under per-obligation time limits, which a busy machine can exhaust: the time
    limits are stretched, and obligations that still fail get a second, longer attempt (the
    fingerprints of the first attempt are kept, so only those are retried)."""
    d = spec_dir()
    shutil.rmtree(os.path.join(d, ".tlacache"), ignore_errors=True)
    t0 = time.time()
    out = ""
    for attempt, (stretch, threads) in enumerate(((3, NCPU), (20, max(2, NCPU // 4)))):
        # tlapm's back ends (Isabelle's poly in particular) can outlive it and spin: the whole process
        # group is killed when tlapm is done, whatever the outcome
        proc = subprocess.Popen(["tlapm", "--threads", str(threads), "--stretch", str(stretch), module + ".tla"], cwd=d,
                                stdout=subprocess.PIPE, stderr=subprocess.STDOUT, text=True, env=dict(os.environ), start_new_session=True)
        try:
            out, _ = proc.communicate(timeout=timeout)
        except subprocess.TimeoutExpired:
            _killpg(proc.pid)
            raise Infra("tlapm timed out on %s" % module)
        finally:
            _killpg(proc.pid)
        out = out or ""
        m = re.search(r"All (\d+) obligations? proved", out)
        if proc.returncode == 0 and m:
            return dict(module=module, obligations=int(m.group(1)), wall_s=round(time.time() - t0, 2), attempts=attempt + 1)
    raise Infra("tlapm did not prove %s:\n%s" % (module, "\n".join(l for l in out.splitlines() if not l.startswith(("Called", "Raised", "Re-raised")))[-2000:]))


def run_vh(sub, args, race=False, timeout=3600, env=None):
    vh = build_harness_race() if race else build_harness()
    _tlc_seq[0] += 1
    out = os.path.join(scratch(), "vh_%s_%d.json" % (sub, _tlc_seq[0]))
    cmd = [vh, sub, "-out", out] + [str(a) for a in args]
    e = dict(GOENV)
    e.update(env or {})
    try:
        p = subprocess.run(cmd, stdout=subprocess.PIPE, stderr=subprocess.STDOUT, text=True, timeout=timeout, env=e)
    except subprocess.TimeoutExpired:
        raise Infra("harness timed out: vh %s" % sub)
    if p.returncode != 0 or not os.path.exists(out):
        raise Infra("harness failed: vh %s (rc=%d)\n%s" % (sub, p.returncode, (p.stdout or "")[-3000:]))
    r = json.load(open(out))
    r["_log"] = p.stdout
    if r.get("infra"):
        raise Infra("harness reported infrastructure problems: %s" % r["infra"])
    return r


def known_findings():
    p = os.path.join(VERIF, "known_findings.json")
    if not os.path.exists(p):
        return []
    return json.load(open(p))


class Check:
    """Accumulates what one check run covered and found."""

    def __init__(self, prop, tier, seed, level="model_checking"):
        self.prop, self.tier, self.seed, self.level = prop, tier, seed, level
        self.t0 = time.time()
        self.cov = dict(states=0, transitions=0, traces_validated_against_impl=0, evaluations=0,
                        distinct_nontrivial=0, samples=[], rule="", exhaustive=False, tlc_runs=[], harness_runs=[])
        self.violations = []
        self.known = {}
        self.assumptions = []
        self.rules = []
        self.drift = {}
        self.drift_samples = []

    def add_tlc(self, name, r, exhaustive=None):
        self.cov["states"] += r["distinct"]
        self.cov["transitions"] += r["generated"]
        self.cov["tlc_runs"].append(dict(name=name, distinct=r["distinct"], generated=r["generated"], depth=r["depth"],
                                         wall_s=r["wall_s"]))
        if r["distinct"] == 0 and r["generated"] == 0:
            raise Infra("TLC run %s explored nothing (vacuous)" % name)

    def add_proof(self, name, r, theorems):
        self.cov.setdefault("tlaps_proofs", []).append(dict(name=name, module=r["module"], obligations_proved=r["obligations"],
                                                            wall_s=r["wall_s"], theorems=theorems))

    def add_vh(self, name, r, props=None, traces=True, min_eval=1):
        """Merges a harness result. props: which properties' findings this check judges
        (default: only its own)."""
        props = props or [self.prop]
        self.cov["evaluations"] += r["evaluations"]
        self.cov["distinct_nontrivial"] += r["distinct_nontrivial"]
        if traces:
            self.cov["traces_validated_against_impl"] += r["evaluations"]
        if r.get("rule"):
            for k, (names, rule) in enumerate(self.rules):
                if rule == r["rule"]:
                    self.rules[k] = (names + ", " + name, rule)
                    break
            else:
                self.rules.append((name, r["rule"]))
        for s in (r.get("samples") or [])[: max(0, 4 - len(self.cov["samples"]))]:
            self.cov["samples"].append(s)
        run = dict(name=name, evaluations=r["evaluations"], distinct_nontrivial=r["distinct_nontrivial"],
                   counters=r.get("counters", {}), known_count=r.get("known_count", {}),
                   violation_count=r.get("violation_count", {}))
        if r.get("tables"):
            run["lexical_rows_exercised"] = {k: len(v) for k, v in r["tables"].items()}
        self.cov["harness_runs"].append(run)
        if r["evaluations"] < min_eval:
            raise Infra("harness run %s evaluated %d cases (< %d): vacuous" % (name, r["evaluations"], min_eval))
        for v in (r.get("violations") or []):
            if v["property"] in props:
                v = dict(v)
                v["reported_by"] = name
                v["property"] = self.prop if v["property"] not in props else v["property"]
                self.violations.append(v)
        for k in (r.get("known") or []):
            if k["property"] in props:
                self.known.setdefault(k["known"], []).append(k)
        for k, n in (r.get("drift_count") or {}).items():
            self.drift[k] = self.drift.get(k, 0) + n
        for d in (r.get("drift") or [])[:2]:
            self.drift_samples.append(dict(d, reported_by=name))
        return r

    def finish(self):
        kf = {(e["property"], e["id"]): e for e in known_findings()}
        wall = round(time.time() - self.t0, 2)
        lines = []
        rc = 0
        # known findings: only those listed (status known) for this property suppress
        for kid, items in sorted(self.known.items()):
            e = kf.get((self.prop, kid))
            if e and e.get("status") == "known":
                lines.append("KNOWN-FINDING: property=%s %s %s (%s)" % (self.prop, kid, e["what"], e.get("site", "")))
            else:
                for it in items[:3]:
                    it = dict(it)
                    it["what"] = "unlisted deviation %s: %s" % (kid, it.get("what", ""))
                    self.violations.append(it)
        # VERIF_EVIDENCE_DIR: sweeps over seeds / seeded changes / scratch worktrees write elsewhere, so
        # that /verif/evidence only ever holds runs against /repo itself
        evdir = os.environ.get("VERIF_EVIDENCE_DIR") or os.path.join(VERIF, "evidence")
        rdir = os.path.join(evdir, "replay")
        os.makedirs(rdir, exist_ok=True)
        for old in os.listdir(rdir):
            if old.startswith(self.prop + "_") and old.endswith(".json"):
                os.remove(os.path.join(rdir, old))
        seen = set()
        nviol = 0
        for v in self.violations:
            if v["property"] != self.prop:
                continue
            key = hashlib.sha1(json.dumps([v.get("aspect"), v.get("case")], sort_keys=True, default=str).encode()).hexdigest()[:12]
            if key in seen:
                continue
            seen.add(key)
            nviol += 1
            if nviol > 10:
                continue
            path = os.path.join(rdir, "%s_%s.json" % (self.prop, key))
            rec = dict(v)
            rec.update(tier=self.tier, seed=self.seed)
            if isinstance(rec.get("input_b64"), (bytes, bytearray)):
                rec["input_b64"] = base64.b64encode(rec["input_b64"]).decode()
            json.dump(rec, open(path, "w"), indent=1, default=str)
            lines.append("VIOLATION property=%s replay=%s" % (self.prop, path))
            lines.append("  # %s: %s" % (v.get("aspect"), str(v.get("what"))[:300]))
            rc = 1
        self.cov["rule"] = " | ".join("%s: %s" % (n, r) for n, r in self.rules) if self.rules else self.cov.get("rule", "")
        if not self.cov["samples"]:
            self.cov["samples"] = ["(no sample recorded)"]
        # model drift: the code departs from the specification where the property is not at stake (the
        # property-level checks of the same cases passed).  Not a violation; the model needs updating.
        for k, cnt in sorted(self.drift.items()):
            if k.split(" ")[0] == self.prop:
                lines.append("MODEL-DRIFT: property=%s %s (%d cases): the code departs from the specification where the property does not decide; no violation" % (self.prop, k.split(" ", 1)[1], cnt))
        self.cov["model_drift"] = {k: v for k, v in self.drift.items() if k.split(" ")[0] == self.prop}
        if self.cov["model_drift"]:
            self.cov["model_drift_samples"] = [dict(what=d.get("what"), expected=d.get("expected"), observed=d.get("observed")) for d in self.drift_samples[:4]]
        ev = dict(property_id=self.prop, tier=self.tier, seed=self.seed, level=self.level, coverage=self.cov,
                  assumptions=self.assumptions, wall_s=wall, violations=nviol,
                  known_findings=sorted(self.known.keys()))
        os.makedirs(evdir, exist_ok=True)
        json.dump(ev, open(os.path.join(evdir, self.prop + ".json"), "w"), indent=1, default=str)
        for l in lines:
            print(l)
        print("%s %s tier=%s seed=%d states=%d transitions=%d replayed=%d distinct_nontrivial=%d wall=%.1fs" % (
            "FAIL" if rc else "ok", self.prop, self.tier, self.seed, self.cov["states"], self.cov["transitions"],
            self.cov["traces_validated_against_impl"], self.cov["distinct_nontrivial"], wall))
        return rc
